//! Family `cli` (C14): the shipped pipeline (CLI binary; playground entry point) against the library
//! pipeline on separate arenas, runs in one process against runs alone, and histories on the real
//! global scratch arenas against `Model/Scratch.lean`.
//!
//! Protocol (one request per line, one answer per line; see also `lean/NaijaVerif/Driver/Cli.lean`):
//! ```text
//! cli <file|eval|stdin> <p> <re> <rt> <hex src>  -> code=<n> | code=panic
//!        runs the real `naija` binary (`--naija <path>`) on the source in that mode and answers its exit
//!        status.  <p> <re> <rt> are the library pipeline's facts (parser diagnostics, error-level checker
//!        diagnostics, error-level runtime diagnostics; `x x x` = the library pipeline panicked), written
//!        by `gen` and re-computed here.  Oracle: stdout of the binary == what the library pipeline on three
//!        fresh, separate arenas computes (rendered diagnostics, then the `shout` lines, then the runtime
//!        diagnostics), exit status 0 iff no error diagnostic, stderr empty.
//! seq <hex1>|<hex2>|…                            -> n=<2k> end=<o0>:<o1>,…
//!        runs the in-process replica of the playground entry point on the sequence, twice, in THIS process
//!        and answers the offsets of the two scratch arenas after each run.  Oracle: every run returns what
//!        the same program returns alone in a fresh process (`nvh cli alone <hex>`).
//! exit <p> <re> <rt>                             -> (driver only)
//! proto <name>                                   -> safe | unsafe   (observed: `cli`/`wasm` = no debug
//!        borrow assertion fired in any run so far of this process / its children)
//! H | i | o | b <v> <none|w> | a <v> <bytes> <align> | m <v> | r <v> <k> | d <v>
//!        a history on the real `S_SCRATCH` through `arena::init` / `scratch_arena` / `ScratchArena`
//! ```
//! Debug profile only (the borrow-order assertions of `debug.rs` are part of what is compared).

use std::alloc::{Allocator, Layout};
use std::collections::HashMap;
use std::io::Write;
use std::os::fd::FromRawFd;
use std::process::{Command, Stdio};
use std::sync::Mutex;
use std::sync::atomic::{AtomicUsize, Ordering};

use naijascript::arena::{self, Arena, ScratchArena, scratch_arena};
use naijascript::helpers::MEBI;
use naijascript::resolver::Resolver;
use naijascript::runtime::Runtime;
use naijascript::syntax::parser::Parser;
use naijascript::syntax::scanner::Lexer;

use crate::util::{self, Rng};

pub fn main(args: &[String]) -> i32 {
    match args.first().map(String::as_str) {
        Some("gen") => generate(&args[1..]),
        Some("run") => run(&args[1..]),
        Some("alone") => alone(&args[1..]),
        Some("seqrun") => seqrun(&args[1..]),
        Some("expect") => expect_cmd(&args[1..]),
        _ => {
            eprintln!(
                "usage: nvh cli gen --seed S --n N --seqs K --hists H | nvh cli run --naija <path> < requests | \
                 nvh cli alone <hex> | nvh cli expect <mode> <hex>"
            );
            2
        }
    }
}

pub fn dump_tables(_out: &mut Vec<(String, String)>) {}

// ------------------------------------------------------------------------------------------------
// The library pipeline on three fresh, separate arenas (the reference configuration)

const LIB_ARENA_CAP: usize = 256 * MEBI;

pub struct Expected {
    pub stdout: Vec<u8>,
    pub code: i32,
    pub p: usize,
    pub re: usize,
    pub rt: usize,
    pub class: &'static str,
}

/// What `cmd.rs::run_source` must print and return according to the property: every diagnostic list is
/// printed through `Diagnostics::report` (which renders into a buffer and `print!`s it, errors included),
/// `shout` prints `Display` of the value and a newline, exit status 0 iff no error diagnostic.
pub fn library_run(src: &str, filename: &str) -> Expected {
    let arena = Arena::new(LIB_ARENA_CAP).unwrap();
    let res_arena = Arena::new(LIB_ARENA_CAP).unwrap();
    let frame = Arena::new(LIB_ARENA_CAP).unwrap();
    let mut out: Vec<u8> = Vec::new();

    let lexer = Lexer::new(src, &arena);
    let mut parser = Parser::new(lexer, &arena);
    let (root, err) = parser.parse_program();
    let p = err.diagnostics.len();
    if p != 0 {
        out.extend_from_slice(err.render_ansi(src, filename).as_bytes());
        return Expected { stdout: out, code: 1, p, re: 0, rt: 0, class: "parse" };
    }
    let mut resolver = Resolver::with_facts_arena(&res_arena, &arena);
    resolver.resolve(root);
    let re = resolver.errors.diagnostics.iter().filter(|d| d.severity == naijascript::diagnostics::Severity::Error).count();
    if !resolver.errors.diagnostics.is_empty() {
        out.extend_from_slice(resolver.errors.render_ansi(src, filename).as_bytes());
    }
    if re != 0 {
        return Expected { stdout: out, code: 1, p, re, rt: 0, class: "static" };
    }
    let (facts, plan) = resolver.into_artifacts();
    let mut runtime = Runtime::new(&arena, Some(&frame));
    let (rt, rendered) = {
        let errs = runtime.run_with_analysis(root, &facts, plan.as_ref());
        let rt = errs.diagnostics.iter().filter(|d| d.severity == naijascript::diagnostics::Severity::Error).count();
        let rendered =
            if errs.diagnostics.is_empty() { Vec::new() } else { errs.render_ansi(src, filename).as_bytes().to_vec() };
        (rt, rendered)
    };
    for v in runtime.output.iter() {
        out.extend_from_slice(format!("{v}\n").as_bytes());
    }
    out.extend_from_slice(&rendered);
    let code = if rt != 0 { 1 } else { 0 };
    Expected { stdout: out, code, p, re, rt, class: if rt != 0 { "rt" } else { "ok" } }
}

fn class_static(c: &str) -> &'static str {
    match c {
        "parse" => "parse",
        "static" => "static",
        "rt" => "rt",
        "ok" => "ok",
        _ => "?",
    }
}

/// The reference in a fresh process of its own (`nvh cli expect <filename> <hex>`): a process-global
/// cache inside the library must not be able to pollute the reference through earlier cases.
fn expect_child(me: &std::path::Path, filename: &str, src: &str) -> (Result<Expected, String>, f64) {
    let mk = || {
        let mut cmd = Command::new(me);
        cmd.args(["cli", "expect", filename, "-"]);
        cmd
    };
    let o = run_child(mk, Some(vec![util::hex(src.as_bytes()).into_bytes()]), 3.0 * BASE_TIMEOUT_S);
    if o.timed_out {
        return (Err("the library pipeline did not finish".to_string()), o.elapsed_s);
    }
    let text = String::from_utf8_lossy(&o.stdout).trim().to_string();
    let parse = || -> Option<Expected> {
        let rest = text.strip_prefix("code=")?;
        let (code, rest) = rest.split_once(" class=")?;
        let (class, rest) = rest.split_once(" facts=")?;
        let (facts, out) = rest.split_once(" stdout=")?;
        let f: Vec<usize> = facts.split(' ').filter_map(|x| x.parse().ok()).collect();
        Some(Expected {
            stdout: util::unhex(out)?,
            code: code.parse().ok()?,
            p: *f.first()?,
            re: *f.get(1)?,
            rt: *f.get(2)?,
            class: class_static(class),
        })
    };
    match parse() {
        Some(e) => (Ok(e), o.elapsed_s),
        None => (Err(if text.is_empty() { format!("died with {:?}", o.code) } else { text }), o.elapsed_s),
    }
}

// ------------------------------------------------------------------------------------------------
// The playground entry point, replicated

thread_local! {
    static LAST_CLASS: std::cell::Cell<&'static str> = const { std::cell::Cell::new("?") };
}

fn note(class: &'static str) {
    LAST_CLASS.with(|c| c.set(class));
}

/// `ansi_to_html::convert` is not linked into the harness; the replica returns the ANSI text.
fn report_html(ansi: &str) -> String {
    ansi.to_string()
}

/// In-process replica of `wasm/src/lib.rs::run_source` (lines 10-58 of the file as of the pinned
/// tree: `arena::init(16 * MEBI)`, `scratch_arena(None)` for AST / facts / runtime data, a block with
/// `scratch_arena(Some(&arena))` for the resolver and again for the frame arena, the same early returns
/// and the same result string).  Differences: `#[wasm_bindgen]` is gone, `report_html` keeps the ANSI
/// text, and `note(..)` records which exit was taken.  `extract/gen_cli.py` extracts the scratch-arena
/// events of this function and of the original and refuses to generate `Gen/Protocol.lean` when they
/// differ, so a change of shape in `wasm/src/lib.rs` must be mirrored here.
pub fn playground_run_source(src: &str, filename: &str) -> String {
    if let Err(err) = arena::init(16 * MEBI) {
        return format!("Failed to initialize arena: {err}");
    }
    let arena = scratch_arena(None);

    let lexer = Lexer::new(src, &arena);
    let mut parser = Parser::new(lexer, &arena);
    let (root, err) = parser.parse_program();
    if !err.diagnostics.is_empty() {
        note("parse");
        return report_html(&err.render_ansi(src, filename));
    }

    // Resolver uses a separate scratch arena that is freed after resolution.
    let mut non_err = String::with_capacity(src.len() / 2);
    {
        let res_arena = scratch_arena(Some(&arena));
        let mut resolver = Resolver::with_facts_arena(&res_arena, &arena);
        resolver.resolve(root);
        if resolver.errors.has_errors() {
            note("static");
            return report_html(&resolver.errors.render_ansi(src, filename));
        }
        if !resolver.errors.diagnostics.is_empty() {
            non_err.push_str(&report_html(&resolver.errors.render_ansi(src, filename)));
        }
        let (facts, optimization_plan) = resolver.into_artifacts();

        // After resolver scope drops, scratch[1] is free for use as frame arena.
        let frame = scratch_arena(Some(&arena));
        let mut runtime = Runtime::new(&arena, Some(&frame));
        let err = runtime.run_with_analysis(root, &facts, optimization_plan.as_ref());
        if err.has_errors() {
            note("rt");
            return report_html(&err.render_ansi(src, filename));
        }
        if !err.diagnostics.is_empty() {
            non_err.push_str(&report_html(&err.render_ansi(src, filename)));
        }

        let res = runtime.output.iter().map(ToString::to_string).collect::<Vec<_>>().join("\n");
        note("ok");
        if !non_err.is_empty() {
            non_err.push_str(&res);
            return non_err;
        }
        res
    }
}

/// Offsets of `S_SCRATCH[0]` and `S_SCRATCH[1]`, read through fresh guards (dropping them resets each
/// arena to the offset just read, i.e. changes nothing).
fn probe_offsets() -> (usize, usize) {
    let a = scratch_arena(None);
    let o0 = a.offset();
    let b = scratch_arena(Some(&a));
    let o1 = b.offset();
    drop(b);
    drop(a);
    (o0, o1)
}

/// One playground run with panics caught: (class, returned text).
fn playground_once(src: &str) -> (String, String) {
    note("?");
    match util::catch(|| playground_run_source(src, "playground.ns")) {
        Ok(s) => (LAST_CLASS.with(|c| c.get()).to_string(), s),
        Err(msg) => ("panic".to_string(), msg),
    }
}

fn digest(s: &[u8]) -> String {
    // FNV-1a 64
    let mut h: u64 = 0xcbf29ce484222325;
    for b in s {
        h ^= *b as u64;
        h = h.wrapping_mul(0x100000001b3);
    }
    format!("{}:{h:016x}", s.len())
}

/// `nvh cli alone <hex>`: one playground run in a fresh process.
fn alone(args: &[String]) -> i32 {
    let Some(src) = args.first().and_then(|h| util::unhex(h)).and_then(|b| String::from_utf8(b).ok()) else {
        return 2;
    };
    util::silence_panics();
    let (answers, _keep) = hide_stdout();
    let (class, text) = playground_once(&src);
    let (o0, o1) = probe_offsets();
    let mut w = answers;
    writeln!(w, "class={class} end={o0}:{o1} out={}", util::hex(text.as_bytes())).unwrap();
    0
}

/// `nvh cli expect <mode> <hex>`: what the library pipeline says the CLI prints (for replays).
fn expect_cmd(args: &[String]) -> i32 {
    let hexsrc = match args.get(1).map(String::as_str) {
        Some("-") => {
            // the hex text comes on stdin (a long script does not fit into one argument)
            let mut t = String::new();
            let _ = std::io::Read::read_to_string(&mut std::io::stdin(), &mut t);
            Some(t.trim().to_string())
        }
        other => other.map(str::to_string),
    };
    let (Some(mode), Some(src)) = (args.first(), hexsrc.and_then(|h| util::unhex(&h)).and_then(|b| String::from_utf8(b).ok()))
    else {
        return 2;
    };
    util::silence_panics();
    let (mut w, _keep) = hide_stdout();
    let filename = match mode.as_str() {
        "eval" | "<eval>" => "<eval>".to_string(),
        "stdin" | "<stdin>" => "<stdin>".to_string(),
        "devstdin" => "/dev/stdin".to_string(),
        other => other.to_string(),
    };
    match util::catch(|| library_run(&src, &filename)) {
        Ok(e) => writeln!(w, "code={} class={} facts={} {} {} stdout={}", e.code, e.class, e.p, e.re, e.rt, util::hex(&e.stdout))
            .unwrap(),
        Err(m) => writeln!(w, "panic {m}").unwrap(),
    }
    0
}

/// `shout` prints to the real stdout: answers go to a duplicate of fd 1 and fd 1 is pointed at
/// /dev/null for the rest of the process.
fn hide_stdout() -> (std::fs::File, ()) {
    // (the unit keeps call sites uniform: `let (w, _keep) = hide_stdout();`)
    unsafe {
        let a = libc::dup(1);
        let null = libc::open(c"/dev/null".as_ptr(), libc::O_WRONLY);
        libc::dup2(null, 1);
        libc::close(null);
        (std::fs::File::from_raw_fd(a), ())
    }
}

// ------------------------------------------------------------------------------------------------
// The real binary

/// Where exactly the native-stack guard trips inside a recursion cycle depends on compiled frame sizes
/// (the binary and the harness are compiled with different options; C08), so the *location* of a
/// `Stack overflow` diagnostic is not comparable across builds: everything after its header line is cut.
fn canon_stack_overflow(out: &[u8]) -> Vec<u8> {
    let needle = b"Stack overflow";
    if let Some(pos) = out.windows(needle.len()).position(|w| w == needle) {
        let end = out[pos..].iter().position(|b| *b == b'\n').map_or(out.len(), |e| pos + e + 1);
        return out[..end].to_vec();
    }
    out.to_vec()
}

fn clip(b: &[u8]) -> String {
    let h = util::hex(b);
    if h.len() > 1200 { format!("{}…({} bytes)", &h[..1200], b.len()) } else { h }
}

// ------------------------------------------------------------------------------------------------
// Histories on the real S_SCRATCH

struct Hist {
    guards: Vec<(u64, ScratchArena<'static>, usize)>, // (variable, guard, S_SCRATCH index), oldest first
    marks: Vec<(u64, usize)>,
    p0: *const u8,
}

impl Hist {
    fn new() -> Self {
        Hist { guards: Vec::new(), marks: Vec::new(), p0: std::ptr::null() }
    }

    /// Drop every guard, newest first (always legal).
    fn clear(&mut self) {
        while let Some(g) = self.guards.pop() {
            drop(g);
        }
        self.marks.clear();
    }

    fn find(&self, v: u64) -> Option<usize> {
        self.guards.iter().position(|g| g.0 == v)
    }

    fn offs(&self) -> String {
        let (a, b) = probe_offsets();
        format!("off={a}:{b}")
    }

    fn step(&mut self, w: &[&str]) -> String {
        match w {
            ["H"] => {
                self.clear();
                arena::init(16 * MEBI).unwrap();
                if self.p0.is_null() {
                    // base address of S_SCRATCH[0]: a zero-sized block at offset 0
                    let a = scratch_arena(None);
                    self.p0 = (&*a).allocate(Layout::from_size_align(0, 1).unwrap()).unwrap().as_ptr() as *const u8;
                    drop(a);
                }
                self.offs()
            }
            ["i"] => {
                arena::init(16 * MEBI).unwrap();
                self.offs()
            }
            ["o"] => self.offs(),
            ["b", v, c] => {
                let Ok(v) = v.parse::<u64>() else { return "bad-op".into() };
                if self.find(v).is_some() {
                    return "rebound".into();
                }
                if self.p0.is_null() {
                    return "bad-op".into(); // a history starts with `H`
                }
                let g = if *c == "none" {
                    scratch_arena(None)
                } else {
                    let Ok(cv) = c.parse::<u64>() else { return "bad-op".into() };
                    let Some(i) = self.find(cv) else { return "unbound".into() };
                    scratch_arena(Some(&*self.guards[i].1))
                };
                let ix = self.identify(&g);
                // reading the offset goes through the newest guard: always legal right after the borrow
                let saved = g.offset();
                self.guards.push((v, g, ix));
                format!("ix={ix} saved={saved}")
            }
            ["a", v, bytes, align] => {
                let (Ok(v), Ok(bytes), Ok(align)) = (v.parse::<u64>(), bytes.parse::<usize>(), align.parse::<usize>())
                else {
                    return "bad-op".into();
                };
                let Some(i) = self.find(v) else { return "unbound".into() };
                let g = &self.guards[i].1;
                let r = util::catch(|| {
                    let layout = Layout::from_size_align(bytes, align).unwrap();
                    let _p = (&**g).allocate(layout).unwrap();
                    g.offset()
                });
                match r {
                    Ok(off) => format!("beg={} off={off}", off - bytes),
                    Err(_) => "panic".into(),
                }
            }
            ["m", v] => {
                let Ok(v) = v.parse::<u64>() else { return "bad-op".into() };
                let Some(i) = self.find(v) else { return "unbound".into() };
                let g = &self.guards[i].1;
                match util::catch(|| g.offset()) {
                    Ok(off) => {
                        self.marks.push((v, off));
                        format!("mark={off}")
                    }
                    Err(_) => "panic".into(),
                }
            }
            ["r", v, k] => {
                let (Ok(v), Ok(k)) = (v.parse::<u64>(), k.parse::<usize>()) else { return "bad-op".into() };
                let Some(i) = self.find(v) else { return "unbound".into() };
                // the request language only allows offsets read through the same guard
                let Some(&(mv, m)) = self.marks.get(k) else { return "badmark".into() };
                if mv != v {
                    return "badmark".into();
                }
                let g = &self.guards[i].1;
                // ... and only resets down (an offset above `commit` would be outside the arena)
                match util::catch(|| {
                    if g.offset() < m {
                        return None;
                    }
                    unsafe { g.reset(m) };
                    Some(g.offset())
                }) {
                    Ok(Some(off)) => format!("off={off}"),
                    Ok(None) => "badmark".into(),
                    Err(_) => "panic".into(),
                }
            }
            ["d", v] => {
                let Ok(v) = v.parse::<u64>() else { return "bad-op".into() };
                let Some(i) = self.find(v) else { return "unbound".into() };
                // Dropping a guard that is not the newest of its arena panics inside `drop` and again in
                // the field's `drop`: the process aborts.  Try it in a forked child first.
                if !self.drop_survives(i) {
                    return "abort".into();
                }
                let g = self.guards.remove(i);
                drop(g);
                self.marks.retain(|m| m.0 != v);
                self.offs()
            }
            _ => "bad-op".into(),
        }
    }

    /// Index of the scratch arena behind a guard.  `scratch_arena(None)` always delegates to
    /// S_SCRATCH[0]; `p0` is an address inside that arena's reservation (its base, taken right after
    /// `init`), and `contains_ptr` does not go through the borrow check.
    fn identify(&self, g: &ScratchArena<'static>) -> usize {
        if g.contains_ptr(self.p0) { 0 } else { 1 }
    }

    fn drop_survives(&mut self, i: usize) -> bool {
        // Only guards that are not last in our list can be out of order; the newest overall is safe.
        if i + 1 == self.guards.len() {
            return true;
        }
        unsafe {
            let pid = libc::fork();
            if pid == 0 {
                let null = libc::open(c"/dev/null".as_ptr(), libc::O_WRONLY);
                libc::dup2(null, 2);
                let g = self.guards.remove(i);
                let _ = util::catch(move || drop(g));
                libc::_exit(0);
            }
            let mut status = 0;
            libc::waitpid(pid, &mut status, 0);
            libc::WIFEXITED(status) && libc::WEXITSTATUS(status) == 0
        }
    }
}

// ------------------------------------------------------------------------------------------------
// run

/// Wall-clock limits for child processes.  They only matter when something does not terminate (the
/// slowest program of the pool takes about 1.5 s in the debug binary); a time-out is reported as an
/// oracle failure, never silently skipped.
/// A child gets `BASE_TIMEOUT_S` plus 30 times what the reference needed (the library pipeline
/// in-process for a CLI run; the programs alone for a sequence).  After `MAX_TIMEOUTS` time-outs the
/// remaining children of the batch are not started (they are answered as timed out as well).
const BASE_TIMEOUT_S: f64 = 10.0;
const MAX_TIMEOUTS: usize = 4;
static TIMEOUTS: AtomicUsize = AtomicUsize::new(0);

struct ChildOut {
    stdout: Vec<u8>,
    stderr: Vec<u8>,
    code: Option<i32>,
    timed_out: bool,
    limit_s: f64,
    elapsed_s: f64,
}

fn pool<T: Send>(jobs: usize, total: usize, f: impl Fn(usize) -> T + Sync) -> Vec<T> {
    let results: Vec<Mutex<Option<T>>> = (0..total).map(|_| Mutex::new(None)).collect();
    let next = AtomicUsize::new(0);
    std::thread::scope(|s| {
        for _ in 0..jobs.max(1) {
            s.spawn(|| {
                loop {
                    let k = next.fetch_add(1, Ordering::SeqCst);
                    if k >= total {
                        break;
                    }
                    *results[k].lock().unwrap() = Some(f(k));
                }
            });
        }
    });
    results.into_iter().map(|m| m.into_inner().unwrap().unwrap()).collect()
}

fn pending_bytes(fd: i32) -> i32 {
    let mut n: libc::c_int = 0;
    let r = unsafe { libc::ioctl(fd, libc::FIONREAD, &mut n) };
    if r < 0 { -1 } else { n }
}

fn write_all_fd(fd: i32, mut data: &[u8]) -> bool {
    while !data.is_empty() {
        let n = unsafe { libc::write(fd, data.as_ptr().cast(), data.len()) };
        if n < 0 {
            if std::io::Error::last_os_error().kind() == std::io::ErrorKind::Interrupted {
                continue;
            }
            return false; // EPIPE: the reader is gone
        }
        data = &data[n as usize..];
    }
    true
}

/// Write the chunks to the pipe one `write(2)` at a time, each only after the previous one has been
/// read completely (`FIONREAD == 0`) and a short pause — the way `harness/src/readline.rs` feeds its
/// cases.  A write that fits the empty pipe becomes visible atomically, so every `read(2)` of the
/// child sees (a buffer-bounded prefix of) exactly one chunk, however loaded the machine is.
fn feed(fd: i32, chunks: &[Vec<u8>], alive: &mut dyn FnMut() -> bool) {
    for (k, c) in chunks.iter().enumerate() {
        if c.is_empty() {
            continue;
        }
        let mut spins = 0u32;
        loop {
            match pending_bytes(fd) {
                0 => break,
                n if n < 0 => return,
                _ => {}
            }
            spins += 1;
            if spins % 32 == 0 && !alive() {
                return;
            }
            std::thread::sleep(std::time::Duration::from_micros(if spins < 200 { 20 } else { 200 }));
        }
        if k > 0 {
            std::thread::sleep(std::time::Duration::from_micros(300));
        }
        if !write_all_fd(fd, c) {
            return;
        }
    }
}

/// Runs the command built by `mk`, feeding `input` (chunks, see `feed`) to its stdin; a time-out must
/// reproduce three times in a row before it is believed (a loaded machine can stall a child once).
fn run_child(mk: impl Fn() -> Command, input: Option<Vec<Vec<u8>>>, timeout_s: f64) -> ChildOut {
    use std::io::Read;
    use std::os::fd::AsRawFd;
    if TIMEOUTS.load(Ordering::SeqCst) >= MAX_TIMEOUTS {
        return ChildOut { stdout: Vec::new(), stderr: Vec::new(), code: None, timed_out: true, limit_s: 0.0, elapsed_s: 0.0 };
    }
    let mut last = None;
    for _attempt in 0..3 {
        let t0 = std::time::Instant::now();
        let deadline = t0 + std::time::Duration::from_secs_f64(timeout_s);
        let mut cmd = mk();
        cmd.stdout(Stdio::piped()).stderr(Stdio::piped());
        cmd.stdin(if input.is_some() { Stdio::piped() } else { Stdio::null() });
        let mut child = cmd.spawn().expect("spawn child");
        let mut so = child.stdout.take().unwrap();
        let mut se = child.stderr.take().unwrap();
        let h1 = std::thread::spawn(move || {
            let mut v = Vec::new();
            let _ = so.read_to_end(&mut v);
            v
        });
        let h2 = std::thread::spawn(move || {
            let mut v = Vec::new();
            let _ = se.read_to_end(&mut v);
            v
        });
        if let Some(chunks) = &input {
            let si = child.stdin.take().unwrap();
            feed(si.as_raw_fd(), chunks, &mut || {
                matches!(child.try_wait(), Ok(None)) && std::time::Instant::now() < deadline
            });
            drop(si);
        }
        let mut nap = 100u64;
        let status = loop {
            if let Ok(Some(st)) = child.try_wait() {
                break Some(st);
            }
            if std::time::Instant::now() >= deadline {
                let _ = child.kill();
                let _ = child.wait();
                break None;
            }
            std::thread::sleep(std::time::Duration::from_micros(nap));
            nap = (nap * 2).min(2000);
        };
        let r = ChildOut {
            stdout: h1.join().unwrap_or_default(),
            stderr: h2.join().unwrap_or_default(),
            code: status.and_then(|st| st.code()),
            timed_out: status.is_none(),
            limit_s: timeout_s,
            elapsed_s: t0.elapsed().as_secs_f64(),
        };
        if !r.timed_out {
            return r;
        }
        last = Some(r);
    }
    TIMEOUTS.fetch_add(1, Ordering::SeqCst);
    last.unwrap()
}

/// `stdin` = the script in one write; `stdin@c1,c2,…` = cut at these byte offsets, one write per piece.
fn stdin_chunks(mode: &str, src: &[u8]) -> Vec<Vec<u8>> {
    let mut cuts: Vec<usize> = match mode.split_once('@') {
        Some((_, c)) => c.split(',').filter_map(|x| x.parse().ok()).filter(|c| *c > 0 && *c < src.len()).collect(),
        None => Vec::new(),
    };
    cuts.sort_unstable();
    cuts.dedup();
    let mut out = Vec::new();
    let mut from = 0;
    for c in cuts {
        out.push(src[from..c].to_vec());
        from = c;
    }
    out.push(src[from..].to_vec());
    out
}

fn run_binary(naija: &str, mode: &str, src: &str, file_path: &str, timeout_s: f64) -> ChildOut {
    let mut input = None;
    match mode {
        "file" => std::fs::write(file_path, src).unwrap(),
        "eval" => {}
        _ => input = Some(stdin_chunks(mode, src.as_bytes())),
    }
    let mk = || {
        let mut cmd = Command::new(naija);
        match mode {
            "file" => cmd.arg(file_path),
            "eval" => cmd.arg(format!("--eval={src}")),
            // a script PATH whose `stat` size says nothing about its content (seed C14-d1): the pipe on fd 0
            "devstdin" => cmd.arg("/dev/stdin"),
            _ => cmd.arg("-"),
        };
        cmd
    };
    run_child(mk, input, timeout_s)
}

/// `nvh cli seqrun <hex1>|<hex2>|…`: the playground replica on the sequence, twice, in this one
/// process; one line per run.
fn seqrun(args: &[String]) -> i32 {
    let Some(progs) = args.first() else { return 2 };
    util::silence_panics();
    let (mut w, _keep) = hide_stdout();
    for _pass in 0..2 {
        for h in progs.split('|') {
            let Some(src) = util::unhex(h).and_then(|b| String::from_utf8(b).ok()) else {
                writeln!(w, "bad").unwrap();
                continue;
            };
            let (class, text) = playground_once(&src);
            let (o0, o1) = probe_offsets();
            writeln!(w, "class={class} end={o0}:{o1} out={}", util::hex(text.as_bytes())).unwrap();
            w.flush().unwrap();
        }
    }
    0
}

/// Panic messages may carry addresses: for a panicking run only the class and the offsets are compared.
fn canon_run_line(l: &str) -> String {
    if l.starts_with("class=panic ") { l.split(" out=").next().unwrap().to_string() } else { l.to_string() }
}

fn run(args: &[String]) -> i32 {
    let naija = util::opt(args, "--naija").unwrap_or("").to_string();
    let tmpdir = util::opt(args, "--tmp").map(str::to_string).unwrap_or_else(|| {
        let d = std::env::temp_dir().join(format!("nvh-cli-{}", std::process::id()));
        d.to_string_lossy().into_owned()
    });
    std::fs::create_dir_all(&tmpdir).ok();
    let jobs = util::opt_u64(args, "--jobs", 8) as usize;
    if std::env::var_os("NVH_PANICS").is_none() {
        util::silence_panics();
    }
    let lines = util::stdin_lines();
    let (mut w, _keep) = hide_stdout();
    let me = std::env::current_exe().unwrap();

    // 1. every run of the real binary and every alone-run of the playground replica, then every
    //    sequence (each in ONE child process of its own), in a small pool
    struct Job {
        line: usize,
        mode: String,
        src: String,
        path: String,
    }
    let mut jobs_cli: Vec<Job> = Vec::new();
    let mut alone_srcs: Vec<String> = Vec::new();
    let mut alone_ix: HashMap<String, usize> = HashMap::new();
    let mut seq_lines: Vec<usize> = Vec::new();
    for (i, l) in lines.iter().enumerate() {
        let ws: Vec<&str> = l.split_whitespace().collect();
        match ws.as_slice() {
            ["cli", mode, _, _, _, hexsrc] => {
                if let Some(src) = util::unhex(hexsrc).and_then(|b| String::from_utf8(b).ok()) {
                    jobs_cli.push(Job { line: i, mode: mode.to_string(), src, path: format!("{tmpdir}/case_{i}.ns") });
                }
            }
            ["seq", progs] => {
                seq_lines.push(i);
                for h in progs.split('|') {
                    if !alone_ix.contains_key(h) {
                        alone_ix.insert(h.to_string(), alone_srcs.len());
                        alone_srcs.push(h.to_string());
                    }
                }
            }
            _ => {}
        }
    }
    if !jobs_cli.is_empty() && naija.is_empty() {
        eprintln!("nvh cli run: --naija <path to the naija binary> is required for `cli` requests");
        return 2;
    }
    // 0. the reference: the library pipeline on separate arenas, in-process, for every `cli` request
    let filename_of = |j: &Job| match j.mode.as_str() {
        "file" => j.path.clone(),
        "eval" => "<eval>".to_string(),
        "devstdin" => "/dev/stdin".to_string(),
        _ => "<stdin>".to_string(),
    };
    let _ = stdin_chunks; // `stdin@c1,c2,…` modes are cut in `run_binary`
    let mut lib_by_line: HashMap<usize, (Result<Expected, String>, f64)> = HashMap::new();
    let refs = pool(jobs, jobs_cli.len(), |k| expect_child(&me, &filename_of(&jobs_cli[k]), &jobs_cli[k].src));
    for (j, r) in jobs_cli.iter().zip(refs) {
        lib_by_line.insert(j.line, r);
    }
    TIMEOUTS.store(0, Ordering::SeqCst);
    let cli_limits: Vec<f64> = jobs_cli.iter().map(|j| BASE_TIMEOUT_S + 30.0 * lib_by_line[&j.line].1).collect();
    let n_cli = jobs_cli.len();
    let phase1 = pool(jobs, n_cli + alone_srcs.len(), |k| {
        if k < n_cli {
            let j = &jobs_cli[k];
            let out = run_binary(&naija, &j.mode, &j.src, &j.path, cli_limits[k]);
            if j.mode == "file" {
                let _ = std::fs::remove_file(&j.path);
            }
            out
        } else {
            let mk = || {
                let mut cmd = Command::new(&me);
                cmd.args(["cli", "alone", &alone_srcs[k - n_cli]]);
                cmd
            };
            run_child(mk, None, 3.0 * BASE_TIMEOUT_S)
        }
    });
    TIMEOUTS.store(0, Ordering::SeqCst);
    let _ = std::fs::remove_dir(&tmpdir);
    let mut phase1 = phase1.into_iter();
    let mut cli_by_line: HashMap<usize, ChildOut> = HashMap::new();
    for j in &jobs_cli {
        cli_by_line.insert(j.line, phase1.next().unwrap());
    }
    // alone results: Some(line) when the fresh process finished normally
    let mut alone_secs: Vec<f64> = Vec::new();
    let alone_results: Vec<Option<String>> = phase1
        .map(|o| {
            alone_secs.push(o.elapsed_s);
            let text = String::from_utf8_lossy(&o.stdout).trim().to_string();
            if o.code == Some(0) && !o.timed_out && !text.is_empty() { Some(text) } else { None }
        })
        .collect();
    // sequences without the programs that kill (or hang) a fresh process as well
    let seq_inputs: Vec<Vec<&str>> = seq_lines
        .iter()
        .map(|i| {
            lines[*i].split_whitespace().nth(1).unwrap().split('|').filter(|h| alone_results[alone_ix[*h]].is_some()).collect()
        })
        .collect();
    let seq_outs = pool(jobs, seq_lines.len(), |k| {
        if seq_inputs[k].is_empty() {
            return ChildOut { stdout: Vec::new(), stderr: Vec::new(), code: Some(0), timed_out: false, limit_s: 0.0, elapsed_s: 0.0 };
        }
        let mk = || {
            let mut cmd = Command::new(&me);
            cmd.args(["cli", "seqrun", &seq_inputs[k].join("|")]);
            cmd
        };
        let alone_total: f64 = seq_inputs[k].iter().map(|h| alone_secs[alone_ix[*h]]).sum();
        run_child(mk, None, BASE_TIMEOUT_S + 30.0 * 2.0 * alone_total)
    });
    let mut seq_by_line: HashMap<usize, (Vec<&str>, ChildOut)> = HashMap::new();
    for ((i, inp), out) in seq_lines.iter().zip(seq_inputs.iter()).zip(seq_outs) {
        seq_by_line.insert(*i, (inp.clone(), out));
    }

    // 2. answers, sequentially on the main thread (the in-process pipelines need its big stack)
    let mut hist = Hist::new();
    let mut assertion_seen = false;
    let mut replica_assertion = false;
    let mut stats: HashMap<String, u64> = HashMap::new();
    fn bump_in(stats: &mut HashMap<String, u64>, k: &str) {
        *stats.entry(k.to_string()).or_insert(0) += 1;
    }
    for (i, l) in lines.iter().enumerate() {
        let ws: Vec<&str> = l.split_whitespace().collect();
        let ln = i + 1;
        let ans: String = match ws.as_slice() {
            ["cli", mode, p, re, rt, hexsrc] => {
                hist.clear();
                let Some(real) = cli_by_line.remove(&i) else {
                    writeln!(w, "bad-op").unwrap();
                    continue;
                };
                let src = String::from_utf8(util::unhex(hexsrc).unwrap()).unwrap();
                let filename = match *mode {
                    "file" => format!("{tmpdir}/case_{i}.ns"),
                    "eval" => "<eval>".to_string(),
                    "devstdin" => "/dev/stdin".to_string(),
                    _ => "<stdin>".to_string(),
                };
                let stderr_txt = String::from_utf8_lossy(&real.stderr).to_string();
                if stderr_txt.contains("already borrowed by a newer ScratchArena") {
                    assertion_seen = true;
                }
                let real_panicked = real.code == Some(101) && stderr_txt.contains("panicked");
                let (lib, lib_secs) = lib_by_line.remove(&i).unwrap();
                if real.timed_out {
                    eprintln!(
                        "ORACLE-FAIL {ln} `naija` ({mode}) did not finish within {:.0} s (the library pipeline needs {:.3} s){}",
                        real.limit_s,
                        lib_secs,
                        if real.limit_s == 0.0 { "; not started: too many time-outs before it" } else { "" }
                    );
                }
                let _ = (&src, &filename);
                match lib {
                    Ok(e) => {
                        bump_in(&mut stats, &format!("cli_{}_{}", if mode.contains('@') { "stdinchunked" } else { *mode }, e.class));
                        if e.stdout.windows(16).any(|w| w == b"Analysis skipped") {
                            bump_in(&mut stats, "cli_analysis_skipped");
                        }
                        let facts = format!("{} {} {}", e.p, e.re, e.rt);
                        if facts != format!("{p} {re} {rt}") {
                            eprintln!("ORACLE-FAIL {ln} facts in the request ({p} {re} {rt}) are not what the library pipeline computes now ({facts})");
                        }
                        if real.timed_out {
                        } else if canon_stack_overflow(&real.stdout) != canon_stack_overflow(&e.stdout) {
                            eprintln!(
                                "ORACLE-FAIL {ln} stdout of `naija` ({mode}) differs from the library pipeline: cli={} lib={}",
                                clip(&real.stdout),
                                clip(&e.stdout)
                            );
                        }
                        if real.timed_out {
                        } else if real.code != Some(e.code) {
                            eprintln!(
                                "ORACLE-FAIL {ln} exit status of `naija` ({mode}) is {:?}, the library pipeline's diagnostics ({}) ask for {}; stderr={}",
                                real.code,
                                e.class,
                                e.code,
                                clip(&real.stderr)
                            );
                        } else if !real.stderr.is_empty() {
                            eprintln!("ORACLE-FAIL {ln} `naija` ({mode}) wrote to stderr: {}", clip(&real.stderr));
                        }
                    }
                    Err(msg) => {
                        bump_in(&mut stats, "cli_library_panic");
                        if !real_panicked {
                            eprintln!(
                                "ORACLE-FAIL {ln} the library pipeline panicked ({msg}) but `naija` ({mode}) exited with {:?}",
                                real.code
                            );
                        }
                    }
                }
                if real.timed_out {
                    "code=timeout".to_string()
                } else if real_panicked {
                    "code=panic".to_string()
                } else {
                    match real.code {
                        Some(c) => format!("code={c}"),
                        None => "code=signal".to_string(),
                    }
                }
            }
            ["seq", progs] => {
                let hs: Vec<&str> = progs.split('|').collect();
                let (inp, out) = seq_by_line.remove(&i).unwrap();
                let got: Vec<String> = String::from_utf8_lossy(&out.stdout).lines().map(str::to_string).collect();
                let mut ends: Vec<String> = Vec::new();
                if out.timed_out || out.code != Some(0) || got.len() != 2 * inp.len() {
                    eprintln!(
                        "ORACLE-FAIL {ln} the sequence did not finish in one process ({}; {} of {} runs answered) although each of its programs finishes alone in a fresh process",
                        if out.timed_out { format!("no end within {:.0} s", out.limit_s) } else { format!("exit {:?}", out.code) },
                        got.len(),
                        2 * inp.len()
                    );
                    format!("n={} end=died", 2 * hs.len())
                } else {
                    let mut k = 0;
                    let mut last = "0:0".to_string();
                    for pass in 0..2 {
                        for (pos, h) in hs.iter().enumerate() {
                            let Some(alone_line) = &alone_results[alone_ix[*h]] else {
                                // kills or hangs a fresh process too (abort, arena exhaustion): left out
                                bump_in(&mut stats, "seq_skipped_alone_died");
                                ends.push(last.clone());
                                continue;
                            };
                            let here = &got[k];
                            k += 1;
                            let class = here.split(' ').next().unwrap_or("").trim_start_matches("class=").to_string();
                            bump_in(&mut stats, &format!("seq_{class}"));
                            if class == "panic" && String::from_utf8_lossy(&util::unhex(here.rsplit("out=").next().unwrap_or("-")).unwrap_or_default()).contains("newer ScratchArena") {
                                replica_assertion = true;
                            }
                            if canon_run_line(here) != canon_run_line(alone_line) {
                                eprintln!(
                                    "ORACLE-FAIL {ln} program #{} of the sequence (pass {}) differs from the same program alone in a fresh process: here={} alone={}",
                                    pos + 1,
                                    pass + 1,
                                    clip_text(&canon_run_line(here)),
                                    clip_text(&canon_run_line(alone_line))
                                );
                            }
                            last = here.split(' ').nth(1).unwrap_or("end=?").trim_start_matches("end=").to_string();
                            ends.push(last.clone());
                        }
                    }
                    format!("n={} end={}", ends.len(), ends.join(","))
                }
            }
            ["proto", name] => {
                // observed fact: the debug borrow-order assertion has not fired in any run of the real binary
                // (`cli`) / of the replica (`wasm`) answered so far
                match *name {
                    "cli" => (if assertion_seen { "unsafe" } else { "safe" }).to_string(),
                    "wasm" => (if replica_assertion { "unsafe" } else { "safe" }).to_string(),
                    _ => "bad-op".to_string(),
                }
            }
            ["exit", _, _, _] => "driver-only".to_string(),
            other => hist.step(other),
        };
        writeln!(w, "{ans}").unwrap();
    }
    hist.clear();
    let mut keys: Vec<_> = stats.into_iter().collect();
    keys.sort();
    eprintln!("STAT {}", keys.iter().map(|(k, v)| format!("{k}={v}")).collect::<Vec<_>>().join(" "));
    0
}

fn clip_text(s: &str) -> String {
    if s.len() > 1500 { format!("{}…({} chars)", &s[..1500], s.len()) } else { s.to_string() }
}

// ------------------------------------------------------------------------------------------------
// gen

fn repo_dir() -> String {
    std::env::var("NV_REPO").unwrap_or_else(|_| "/repo".to_string())
}

fn file_programs() -> Vec<(String, String)> {
    let mut v = Vec::new();
    for sub in ["examples", "tests/stress"] {
        let dir = format!("{}/{}", repo_dir(), sub);
        let mut names: Vec<_> = match std::fs::read_dir(&dir) {
            Ok(rd) => rd.filter_map(|e| e.ok()).map(|e| e.path()).filter(|p| p.extension().is_some_and(|x| x == "ns")).collect(),
            Err(_) => Vec::new(),
        };
        names.sort();
        for p in names {
            if let Ok(s) = std::fs::read_to_string(&p) {
                if s.contains("read_line") || s.contains("command(") {
                    continue;
                }
                v.push((p.file_name().unwrap().to_string_lossy().into_owned(), s));
            }
        }
    }
    v
}

/// Small template programs: loops and calls (frame resets), strings stored in variables (pool),
/// arrays, warnings, static errors, syntax errors, runtime errors after some output, unbounded
/// recursion (stack-overflow diagnostic; nothing printed inside the recursion because the depth at
/// which the guard trips depends on compiled frame sizes).
fn template(rng: &mut Rng) -> (&'static str, String) {
    let n = 2 + rng.below(9);
    let m = 1 + rng.below(6);
    let word = *rng.pick(&["ab", "naija", "wörld", "日本", "x", "hello there", "😆ok"]);
    let word2 = *rng.pick(&["cd", "!", "ß", "--", "zz top"]);
    match rng.below(16) {
        0 => ("loop_sum", format!(
            "make s get 0\nmake i get 0\njasi (i small pass {n}) start\n  s get s add i times {m}\n  i get i add 1\nend\nshout(s)\n")),
        1 => ("loop_concat", format!(
            "make s get \"\"\nmake i get 0\njasi (i small pass {n}) start\n  s get s add \"{word}\"\n  shout(s)\n  i get i add 1\nend\nshout(s.len())\n")),
        2 => ("recursion", format!(
            "do fib(k) start\n  if to say (k small pass 2) start\n    return k\n  end\n  return fib(k minus 1) add fib(k minus 2)\nend\nshout(fib({}))\n", 5 + n)),
        3 => ("fn_string", format!(
            "do greet(name) start\n  return \"{word} \" add name add \"{word2}\"\nend\nmake i get 0\njasi (i small pass {n}) start\n  shout(greet(\"{word2}\"))\n  i get i add 1\nend\n")),
        4 => ("array_push", format!(
            "make a get []\nmake i get 0\njasi (i small pass {n}) start\n  a.push(\"{word}\" add \"{word2}\")\n  a.push(i)\n  i get i add 1\nend\nshout(a)\nshout(a.len())\n")),
        5 => ("interp", format!(
            "make name get \"{word}\"\nmake i get 0\njasi (i small pass {m}) start\n  name get name add \"{word2}\"\n  shout(\"hi {{name}} !\")\n  i get i add 1\nend\n")),
        6 => ("warn_unused", format!("make unused get {n}\nshout(\"{word}\")\nmake y get {m}\nshout(y)\n")),
        7 => ("static_undeclared", format!("make x get {n}\nshout(x)\nshout(nobody)\n")),
        8 => ("static_type", format!("make x get \"{word}\"\nshout(x minus {n})\n")),
        9 => ("syntax", format!("make x get {n}\nshout(x\nmake get {m}\n")),
        10 => ("rt_div0", format!(
            "make i get 0\njasi (i small pass {n}) start\n  shout(\"{word}\" add \"{word2}\")\n  i get i add 1\nend\nmake z get {m} minus {m}\nshout({n} divide z)\nshout(\"never\")\n")),
        11 => ("rt_index", format!(
            "make a get [1, 2, 3]\nshout(a[{}])\nshout(a[{}])\nshout(\"never\")\n", rng.below(3), 3 + n)),
        12 => ("rt_stack", format!(
            "shout(\"{word}\")\ndo down(k) start\n  return down(k add 1)\nend\nshout(down(0))\n")),
        13 => ("nested_loops", format!(
            "make t get \"\"\nmake i get 0\njasi (i small pass {m}) start\n  make j get 0\n  jasi (j small pass {m}) start\n    t get t add \"{word2}\"\n    j get j add 1\n  end\n  shout(t)\n  i get i add 1\nend\n")),
        14 => ("methods", format!(
            "make s get \"{word} {word2} {word}\"\nshout(s.to_uppercase())\nshout(s.replace(\"{word}\", \"{word2}\"))\nshout(s.split(\" \"))\nshout(s.slice(0, {m}))\nshout(s.find(\"{word2}\"))\n")),
        _ => ("reassign_call", format!(
            "make x get \"{word}\" add \"{word2}\"\ndo f() start\n  x get \"{word2}\" add \"{word}\"\n  return \"!\"\nend\nshout(x add f())\nshout(x)\n")),
    }
}

/// Programs whose result depends on lexical binding: a function reads or assigns a variable of an
/// enclosing block while a caller on the stack holds a local (or parameter) of the same name; recursion;
/// a nested function capturing its parent's local.  With by-name lookup through the callers' scopes
/// every one of them prints something else.
fn binding_payload(rng: &mut Rng) -> (&'static str, String) {
    let a = 1 + rng.below(9);
    let b = 10 + rng.below(90);
    match rng.below(5) {
        0 => ("clash_read", format!(
            "make x get {a}\ndo show() start\n    shout(x)\nend\ndo wrap() start\n    make x get {b}\n    show()\n    shout(x)\nend\nwrap()\n")),
        1 => ("clash_recursion", format!(
            "make depth get {b}\ndo peek() start\n  return depth\nend\ndo rec(k) start\n  make depth get k\n  if to say (k small pass 1) start\n    return peek()\n  end\n  return rec(k minus 1) add depth\nend\nshout(rec({a}))\n")),
        2 => ("clash_assign", format!(
            "make total get {a}\ndo bump() start\n  total get total add 1\nend\ndo work() start\n  make total get {b}\n  bump()\n  bump()\n  shout(total)\nend\nwork()\nshout(total)\n")),
        3 => ("clash_param", format!(
            "make name get \"outer{a}\"\ndo who() start\n  return name\nend\ndo greet(name) start\n  return who() add \"/\" add name\nend\nshout(greet(\"param{b}\"))\n")),
        _ => ("clash_nested", format!(
            "do mk() start\n  make v get \"mk{a}\"\n  do inner() start\n    return v\n  end\n  do via() start\n    make v get \"via{b}\"\n    return inner() add v\n  end\n  return via()\nend\nshout(mk())\n")),
    }
}

/// A program past a default analysis cap (`src/analysis/limits.rs`): the checker then warns "Analysis
/// skipped …" and hands the runtime no optimisation plan.  Cheapest cap: "summary events",
/// `F * (F + 2 L + 2) > 16_777_216` for `F` functions and `L` locals — about 1400 unused
/// four-parameter functions, 1000 eight-parameter ones, or 4100 without parameters.  The payload
/// (before, after or between the padding) depends on lexical binding.
fn overlimit(rng: &mut Rng) -> (String, String) {
    let (plabel, payload) = binding_payload(rng);
    let (kind, count, params): (&str, u64, &str) = match rng.below(3) {
        0 => ("f1400x4", 1400 + rng.below(100), "a, b, c, d"),
        1 => ("f1000x8", 1000 + rng.below(60), "a, b, c, d, e, f, g, h"),
        _ => ("f4100x0", 4100 + rng.below(40), ""),
    };
    let mut pad1 = String::new();
    let mut pad2 = String::new();
    let split = match rng.below(3) {
        0 => 0,
        1 => count,
        _ => count / 2,
    };
    for i in 0..count {
        let t = if i < split { &mut pad1 } else { &mut pad2 };
        t.push_str(&format!("do q{i}({params}) start\nend\n"));
    }
    (format!("over_{kind}_{plabel}"), format!("{pad1}{payload}{pad2}"))
}

/// `payload` padded with a trailing comment to exactly `size` bytes.
fn sized(payload: &str, size: usize) -> String {
    let mut s = payload.to_string();
    if s.len() + 2 <= size {
        s.push('#');
        while s.len() + 1 < size {
            s.push('p');
        }
        s.push('\n');
    }
    s
}

/// `payload` followed by a comment padded so that a multi-byte character (2, 3 or 4 bytes) BEGINS `back`
/// bytes before the file offset `edge` (a multiple of the 8 KiB read size): the character straddles the
/// edge of a block-wise reader (seed C14-c1: a file reader that validates UTF-8 block by block).
fn straddling(payload: &str, edge: usize, ch: char, back: usize) -> String {
    let mut s = payload.to_string();
    let at = edge - back;
    if s.len() + 2 > at {
        return s;
    }
    s.push('#');
    while s.len() < at {
        s.push('p');
    }
    s.push(ch);
    s.push_str(" tail\n");
    s
}

/// 1-3 cut offsets for feeding a script through stdin in several writes: between statements, inside a
/// statement or token, inside a multi-byte character, and at the 8 KiB chunk size of `run_stdin` and
/// its neighbours and multiples.
fn cuts_for(rng: &mut Rng, src: &[u8]) -> Vec<usize> {
    let n = src.len();
    if n < 2 {
        return Vec::new();
    }
    let newlines: Vec<usize> = (1..n).filter(|i| src[*i - 1] == b'\n').collect();
    let inside_char: Vec<usize> = (1..n).filter(|i| src[*i] & 0xC0 == 0x80).collect();
    let chunk_edges: Vec<usize> = [8191usize, 8192, 8193, 16383, 16384, 16385, 24576, 65536]
        .iter()
        .copied()
        .filter(|c| *c < n)
        .collect();
    let mut cuts = Vec::new();
    let k = 1 + rng.below(3);
    for _ in 0..k {
        let c = match rng.below(8) {
            0 | 1 if !newlines.is_empty() => *rng.pick(&newlines),
            2 if !inside_char.is_empty() => *rng.pick(&inside_char),
            3 | 4 if !chunk_edges.is_empty() => *rng.pick(&chunk_edges),
            5 => 1,
            6 => n - 1,
            _ => 1 + rng.below(n as u64 - 1) as usize,
        };
        cuts.push(c);
    }
    cuts.sort_unstable();
    cuts.dedup();
    cuts
}

fn cuts_mode(cuts: &[usize]) -> String {
    if cuts.is_empty() {
        "stdin".to_string()
    } else {
        format!("stdin@{}", cuts.iter().map(|c| c.to_string()).collect::<Vec<_>>().join(","))
    }
}

fn generate(args: &[String]) -> i32 {
    let seed = util::opt_u64(args, "--seed", 1);
    let n = util::opt_u64(args, "--n", 150);
    let nseq = util::opt_u64(args, "--seqs", 50);
    let nhist = util::opt_u64(args, "--hists", 200);
    let skip_files = util::flag(args, "--no-files");
    util::silence_panics();
    let (w, _keep) = hide_stdout();
    let mut w = std::io::BufWriter::new(w);
    let mut rng = Rng::new(seed ^ 0xC14);
    // the program pool: (label, source, facts); the facts come from a fresh process per program
    let me = std::env::current_exe().unwrap();
    let mut srcs: Vec<(String, String)> = Vec::new();
    if !skip_files {
        srcs.extend(file_programs());
    }
    while (srcs.len() as u64) < n {
        let (label, src) = if rng.chance(1, 6) { binding_payload(&mut rng) } else { template(&mut rng) };
        srcs.push((label.to_string(), src));
    }
    // the text given IS the text run: leading / trailing blank lines, indentation and non-ASCII-whitespace margins
    // around programs that print diagnostics (positions must not move) — every mode must take the source as it is
    // (seed C14-e2: `--eval` trimmed its code)
    for (k, (lead, trail)) in [("\n\n   ", "\n"), ("\n", "\n\n\n"), ("  \t", ""), ("\u{b}", ""), ("", "\u{a0}"), ("\n\n", "\u{c}\n"), ("\r\n\r\n", "")]
        .into_iter()
        .enumerate()
    {
        let body = match k % 3 {
            0 => "make unused get 1\nshout(2)\nshout(1 divide 0)",
            1 => "shout(1)\nshout(missing_name)",
            _ => "shout(\"ok\")\nmake x get [1]\nshout(x[5])",
        };
        srcs.push((format!("margin_{k}"), format!("{lead}{body}{trail}")));
    }
    // scripts of exactly / around the 8 KiB read chunk of `run_stdin` and larger, and programs past an
    // analysis cap (labels `sized_*`, `over_*`; never put into sequences: they would not fit into one
    // argument of the child processes)
    let nbig = util::opt_u64(args, "--big", 6);
    for k in 0..nbig {
        let (label, payload) = if rng.chance(1, 2) { binding_payload(&mut rng) } else { template(&mut rng) };
        let size = [8192usize, 16384, 8191, 8193, 20000, 40000][(k % 6) as usize];
        srcs.push((format!("sized_{size}_{label}"), sized(&payload, size)));
    }
    // a multi-byte character across every multiple of the read size, each split position
    for (k, (ch, back)) in [('é', 1usize), ('€', 1), ('€', 2), ('😀', 1), ('😀', 2), ('😀', 3)].into_iter().enumerate() {
        if (k as u64) >= nbig {
            break;
        }
        let (label, payload) = if rng.chance(1, 2) { binding_payload(&mut rng) } else { template(&mut rng) };
        let edge = 8192 * (1 + (k + rng.below(2) as usize) % 3);
        srcs.push((format!("sized_straddle{edge}_{back}_{label}"), straddling(&payload, edge, ch, back)));
    }
    let nbig = nbig + nbig.min(6);
    let nover = util::opt_u64(args, "--over", 6);
    for _ in 0..nover {
        srcs.push(overlimit(&mut rng));
    }
    let n = n + nbig + nover + 7;
    let facts = pool(8, srcs.len(), |k| expect_child(&me, "<facts>", &srcs[k].1).0.ok().map(|e| (e.p, e.re, e.rt, e.class)));
    let pool: Vec<(String, String, Option<(usize, usize, usize, &'static str)>)> =
        srcs.into_iter().zip(facts).map(|((l, s), f)| (l, s, f)).collect();
    let mut dist: HashMap<String, u64> = HashMap::new();
    for (label, src, f) in pool.iter().take(n as usize) {
        let facts = match f {
            Some((p, re, rt, class)) => {
                *dist.entry(format!("{class}")).or_insert(0) += 1;
                format!("{p} {re} {rt}")
            }
            None => {
                *dist.entry("library_panic".into()).or_insert(0) += 1;
                "x x x".to_string()
            }
        };
        if label.starts_with("over_") {
            *dist.entry("overlimit".into()).or_insert(0) += 1;
        }
        let h = util::hex(src.as_bytes());
        for mode in ["file", "eval", "stdin"] {
            writeln!(w, "cli {mode} {facts} {h}").unwrap();
        }
        // one program in four also as a script path that is a pipe (`naija /dev/stdin`)
        if rng.chance(1, 4) {
            writeln!(w, "cli devstdin {facts} {h}").unwrap();
        }
        // stdin again, in several writes
        let big = label.starts_with("sized_") || label.starts_with("over_");
        for _ in 0..(if big { 3 } else { 1 }) {
            let cuts = cuts_for(&mut rng, src.as_bytes());
            if !cuts.is_empty() {
                writeln!(w, "cli {} {facts} {h}", cuts_mode(&cuts)).unwrap();
            }
        }
    }
    writeln!(w, "proto cli").unwrap();
    // sequences: 2-6 programs, each sequence forced to contain a failing and a loop-heavy program when possible
    let by_class = |c: &str| -> Vec<usize> {
        pool.iter()
            .enumerate()
            .filter(|(_, p)| p.2.is_some_and(|f| f.3 == c) && p.1.len() < 6000)
            .map(|(i, _)| i)
            .collect()
    };
    let oks = by_class("ok");
    let fails: Vec<usize> = ["parse", "static", "rt"].iter().flat_map(|c| by_class(c)).collect();
    for _ in 0..nseq {
        let len = 2 + rng.below(5) as usize;
        let mut ixs: Vec<usize> = Vec::new();
        for k in 0..len {
            let from_fail = !fails.is_empty() && (k == 1 || rng.chance(1, 3));
            let i = if from_fail || oks.is_empty() { *rng.pick(&fails) } else { *rng.pick(&oks) };
            ixs.push(i);
        }
        if rng.chance(1, 4) {
            let d = ixs[0];
            ixs.push(d); // the same program again later in the sequence
        }
        let hs: Vec<String> = ixs.iter().map(|i| util::hex(pool[*i].1.as_bytes())).collect();
        writeln!(w, "seq {}", hs.join("|")).unwrap();
    }
    // host errors with DIFFERENT operating-system texts one after the other in one process (seed C14-d2: the text
    // of the first host error kept in a process-wide write-once static): spawn failures ENOENT / EACCES / ENOTDIR
    // around ordinary programs, every order of two of them
    {
        let host = |prog: &str| format!("make c get command(\"{prog}\")\nmake r get c.run()\nshout(r)\n");
        let errs = [host("/nonexistent/nv-no-such-program"), host("/etc/passwd"), host("/etc/passwd/x")];
        let ok = "shout(\"between\")\n".to_string();
        for a in 0..3 {
            for b in 0..3 {
                if a != b {
                    let seq = [&errs[a], &ok, &errs[b], &errs[a]];
                    let hs: Vec<String> = seq.iter().map(|s| util::hex(s.as_bytes())).collect();
                    writeln!(w, "seq {}", hs.join("|")).unwrap();
                }
            }
        }
    }
    writeln!(w, "proto wasm").unwrap();
    // histories on S_SCRATCH
    for _ in 0..nhist {
        gen_history(&mut rng, &mut w);
    }
    writeln!(w, "H").unwrap();
    w.flush().unwrap();
    let mut keys: Vec<_> = dist.into_iter().collect();
    keys.sort();
    eprintln!("GEN-STAT programs={} {}", pool.len().min(n as usize), keys.iter().map(|(k, v)| format!("{k}={v}")).collect::<Vec<_>>().join(" "));
    0
}

/// A history: mostly legal (the newest guard of an arena is used, guards dropped newest first), with
/// stale uses (answer `panic`), out-of-order drops (answer `abort`, tried in a forked child), resets to
/// offsets read through another guard (`badmark`) and unknown variables mixed in.  Ends with every
/// guard dropped.
fn gen_history(rng: &mut Rng, w: &mut impl Write) {
    writeln!(w, "H").unwrap();
    // shadow of the model state, only to bias the choices: live guards oldest first with their arena,
    // and the variable of every recorded offset
    let mut live: Vec<(u64, usize)> = Vec::new();
    let mut marks: Vec<u64> = Vec::new();
    let len = 6 + rng.below(40);
    let sizes: &[u64] = &[0, 1, 7, 8, 24, 100, 4096, 65535, 65536, 65537, 200000];
    let aligns: &[u64] = &[1, 2, 4, 8, 16];
    fn is_top(live: &[(u64, usize)], pos: usize) -> bool {
        !live[pos + 1..].iter().any(|x| x.1 == live[pos].1)
    }
    fn tops(live: &[(u64, usize)]) -> Vec<usize> {
        (0..live.len()).filter(|p| is_top(live, *p)).collect()
    }
    for _ in 0..len {
        let r = rng.below(100);
        if (r < 18 || (live.is_empty() && r < 85)) && live.len() < 6 {
            let v = (0..8u64).find(|v| !live.iter().any(|g| g.0 == *v)).unwrap();
            let (c, ix) = if live.is_empty() || rng.chance(1, 4) {
                ("none".to_string(), 0)
            } else {
                let g = *rng.pick(&live);
                (g.0.to_string(), if g.1 == 0 { 1 } else { 0 })
            };
            writeln!(w, "b {v} {c}").unwrap();
            live.push((v, ix));
        } else if r < 50 && !live.is_empty() {
            let pos = if rng.chance(6, 7) { *rng.pick(&tops(&live)) } else { rng.below(live.len() as u64) as usize };
            writeln!(w, "a {} {} {}", live[pos].0, rng.pick(sizes), rng.pick(aligns)).unwrap();
        } else if r < 62 && !live.is_empty() {
            let pos = if rng.chance(6, 7) { *rng.pick(&tops(&live)) } else { rng.below(live.len() as u64) as usize };
            writeln!(w, "m {}", live[pos].0).unwrap();
            if is_top(&live, pos) {
                marks.push(live[pos].0);
            }
        } else if r < 78 && !marks.is_empty() {
            let valid: Vec<usize> = (0..marks.len())
                .filter(|k| live.iter().position(|g| g.0 == marks[*k]).is_some_and(|p| is_top(&live, p)))
                .collect();
            if !valid.is_empty() && rng.chance(5, 6) {
                let k = *rng.pick(&valid);
                writeln!(w, "r {} {k}", marks[k]).unwrap();
            } else if !live.is_empty() {
                writeln!(w, "r {} {}", rng.pick(&live).0, rng.below(marks.len() as u64 + 1)).unwrap();
            }
        } else if r < 91 && !live.is_empty() {
            let pos = if rng.chance(3, 4) { *rng.pick(&tops(&live)) } else { rng.below(live.len() as u64) as usize };
            let v = live[pos].0;
            writeln!(w, "d {v}").unwrap();
            if is_top(&live, pos) {
                live.remove(pos);
                marks.retain(|m| *m != v);
            }
        } else if r < 94 && (0..2).all(|ix| live.iter().filter(|g| g.1 == ix).count() <= 1) {
            // `arena::init`, also under a live guard (not something the entry points do, but the only way
            // to see that `init` resets the offsets: at rest they are 0 already).  Only while no arena
            // carries two guards, so that every live guard was taken at offset 0: with a guard whose
            // saved offset is higher, its drop would raise the offset above `commit`, which is outside
            // the arena's own invariant (the debug fill of the next reset underflows) and outside this model.
            writeln!(w, "i").unwrap();
        } else if r < 96 {
            writeln!(w, "a {} 8 8", 9 + rng.below(3)).unwrap(); // unknown variable
        } else {
            writeln!(w, "o").unwrap();
        }
    }
    // drop what is left, newest first (always legal)
    while let Some((v, _)) = live.pop() {
        writeln!(w, "d {v}").unwrap();
    }
    writeln!(w, "o").unwrap();
}
