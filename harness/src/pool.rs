//! Family `pool` (C12): histories over one `Pool` and over the 20-class `PoolSet`.
//!
//! Protocol (one request per line, one answer per line):
//! ```text
//! pool1 <slotSize> <slotCount>   -> ok
//! a                              -> slot <idx> | none
//! f <bufNo>                      -> ok
//! c <bufNo> <delta>              -> true | false
//! s                              -> live=<n> free=<n> bump=<n>
//! set                            -> ok
//! A <size>                       -> pool <cls> <idx> <len> | arena <len>
//! F <bufNo>                      -> ok
//! C <bufNo> <delta>              -> true | false
//! S <cls>                        -> live=<n> free=<n> bump=<n>
//! K <n>                          -> <cls> | none
//! P <cls> <delta>                -> true | false    contains(class_base(cls) + delta)
//! ```
//! `run` also evaluates an implementation-level oracle that needs no model (shadow ownership map,
//! byte patterns, conservation) and reports `ORACLE-FAIL <line-no> <what>` on stderr.

use std::alloc::{Allocator, Layout};
use std::collections::BTreeMap;
use std::ptr::NonNull;

use naijascript::arena::Arena;
use naijascript::arena::verif_hooks::{self as hooks, HookPool, HookPoolSet};

use crate::util::{self, Out, Rng};

pub fn main(args: &[String]) -> i32 {
    match args.first().map(String::as_str) {
        Some("gen") => generate(&args[1..]),
        Some("run") => run(),
        _ => {
            eprintln!("usage: nvh pool gen --seed S --n N [--maxlen L] | nvh pool run < requests");
            2
        }
    }
}

const BOUNDARY_SIZES: &[u32] =
    &[0, 1, 7, 8, 9, 15, 16, 17, 120, 127, 128, 129, 130, 159, 160, 161, 191, 192, 193, 224, 225, 255, 256, 257, 300, 1000];

fn generate(args: &[String]) -> i32 {
    let seed = util::opt_u64(args, "--seed", 1);
    let n = util::opt_u64(args, "--n", 1000);
    let maxlen = util::opt_u64(args, "--maxlen", 40);
    let mut rng = Rng::new(seed ^ 0xC12);
    let mut out = Out::new();
    // size-class probes first (cheap, deterministic): every boundary
    out.line("set");
    for k in 0..=300u32 {
        out.line(&format!("K {k}"));
    }
    // ... and the neighbourhood of every multiple of a power of two: a size-to-class mapping that narrows the
    // byte count or the granule count (u8 / u16 casts, masks) answers like a small request there (seed C12-f1:
    // `n.div_ceil(8) as u16` pools a request of 524 281 bytes into the 8-byte class)
    for sh in 8..32u32 {
        for m in [1u64, 2, 3, 5] {
            let c = m << sh;
            for r in -9i64..=264 {
                let v = c as i64 + r;
                if (0..=i64::from(u32::MAX)).contains(&v) {
                    out.line(&format!("K {v}"));
                }
            }
        }
    }
    for r in 0..=264u32 {
        out.line(&format!("K {}", u32::MAX - r));
    }
    for h in 0..n {
        let len = 1 + rng.below(maxlen);
        if h % 4 != 3 {
            // single pool with tiny geometry so that exhaustion and refill are common
            let sz = 8 * (1 + rng.below(4));
            let cnt = 1 + rng.below(8);
            out.line(&format!("pool1 {sz} {cnt}"));
            let mut live: Vec<u64> = Vec::new();
            let mut next = 0u64;
            let mut nlive_slots = 0u64;
            for _ in 0..len {
                match rng.below(10) {
                    0..=4 => {
                        out.line("a");
                        if nlive_slots < cnt {
                            live.push(next);
                            next += 1;
                            nlive_slots += 1;
                        }
                    }
                    5..=7 if !live.is_empty() => {
                        let i = rng.below(live.len() as u64) as usize;
                        let b = live.swap_remove(i);
                        nlive_slots -= 1;
                        out.line(&format!("f {b}"));
                    }
                    8 if next > 0 => {
                        let b = rng.below(next);
                        let d = *rng.pick(&[0i64, 1, -1, 7, 8, -8, 16, 31, 32, 33, 64, -64, 255, 256]);
                        out.line(&format!("c {b} {d}"));
                    }
                    _ => out.line("s"),
                }
            }
            out.line("s");
        } else if h % 40 == 7 {
            // exhaustion of one real class, fallback while exhausted, release and refill
            let sizes = hooks::slot_sizes();
            let counts = hooks::slot_counts();
            let cls = 8 + rng.below(12) as usize; // classes with 1024 or 512 slots
            let size = sizes[cls] - rng.below(3) as u32;
            let count = counts[cls] as u64;
            out.line("set");
            let extra = 1 + rng.below(3);
            for _ in 0..count + extra {
                out.line(&format!("A {size}"));
            }
            out.line(&format!("S {cls}"));
            if cls + 1 < sizes.len() {
                out.line(&format!("S {}", cls + 1));
            }
            // release the overflow buffers and a few pooled ones, then allocate again
            let mut freed = Vec::new();
            for b in count..count + extra {
                out.line(&format!("F {b}"));
                freed.push(b);
            }
            for _ in 0..3 {
                let b = rng.below(count);
                if !freed.contains(&b) {
                    out.line(&format!("F {b}"));
                    freed.push(b);
                }
            }
            out.line(&format!("S {cls}"));
            if cls + 1 < sizes.len() {
                out.line(&format!("S {}", cls + 1));
            }
            for _ in 0..5 {
                out.line(&format!("A {size}"));
            }
            out.line(&format!("S {cls}"));
        } else if h % 40 == 23 {
            // mass release: more than half of one class free at once while the NEXT class (whose block
            // follows this class's free-list array in the arena) has live low slots, then refill
            let sizes = hooks::slot_sizes();
            let counts = hooks::slot_counts();
            let cls = 8 + rng.below(11) as usize; // 1024- or 512-slot classes with a successor
            let size = sizes[cls];
            let next_size = sizes[cls + 1];
            let count = counts[cls] as u64;
            out.line("set");
            let mut bufno = 0u64;
            for _ in 0..4 {
                out.line(&format!("A {next_size}"));
                bufno += 1;
            }
            let first = bufno;
            let n = count / 2 + 8 + rng.below(count / 2 - 8);
            for _ in 0..n {
                out.line(&format!("A {size}"));
                bufno += 1;
            }
            for b in first..first + n {
                out.line(&format!("F {b}"));
            }
            out.line(&format!("S {cls}"));
            out.line(&format!("S {}", cls + 1));
            // the next class's buffers must still hold their patterns (checked on every op) and a refill
            // must hand out distinct slots
            for _ in 0..n.min(600) {
                out.line(&format!("A {size}"));
            }
            out.line(&format!("S {cls}"));
            out.line(&format!("S {}", cls + 1));
        } else if h % 40 == 31 {
            // requests just past a multiple of a power of two go to the arena with their full length, pooled
            // neighbours keep their contents, and the released buffers are never recycled by a class
            out.line("set");
            let mut bufno = 0u64;
            for _ in 0..6 {
                out.line(&format!("A {}", *rng.pick(BOUNDARY_SIZES)));
                bufno += 1;
            }
            let first = bufno;
            for sh in [8u32, 9, 12, 16, 19, 20] {
                let r = rng.range(-7, 257);
                let v = (1i64 << sh) + r;
                out.line(&format!("A {v}"));
                bufno += 1;
            }
            for b in first..bufno {
                out.line(&format!("F {b}"));
            }
            for c in [0u32, 1, 15, 16, 19] {
                out.line(&format!("S {c}"));
            }
            for _ in 0..6 {
                out.line(&format!("A {}", *rng.pick(BOUNDARY_SIZES)));
            }
        } else if h % 40 == 11 {
            // ownership test around every block boundary and inside the free-list arrays
            let sizes = hooks::slot_sizes();
            let counts = hooks::slot_counts();
            out.line("set");
            for cls in 0..sizes.len() {
                let total = i64::from(sizes[cls]) * i64::from(counts[cls]);
                let fl = 4 * i64::from(counts[cls]);
                for d in [-8, -1, 0, 1, total - 1, total, total + 1, total + 7, total + fl / 2, total + fl - 1, total + fl, total + fl + 8] {
                    out.line(&format!("P {cls} {d}"));
                }
                out.line(&format!("P {cls} {}", rng.range(0, total + fl)));
            }
        } else {
            out.line("set");
            let mut live: Vec<u64> = Vec::new();
            let mut next = 0u64;
            for _ in 0..len {
                match rng.below(10) {
                    0..=4 => {
                        let size = if rng.chance(2, 3) {
                            *rng.pick(BOUNDARY_SIZES)
                        } else {
                            rng.below(300) as u32
                        };
                        out.line(&format!("A {size}"));
                        live.push(next);
                        next += 1;
                    }
                    5..=7 if !live.is_empty() => {
                        let i = rng.below(live.len() as u64) as usize;
                        let b = live.swap_remove(i);
                        out.line(&format!("F {b}"));
                    }
                    8 if next > 0 => {
                        let b = rng.below(next);
                        let d = *rng.pick(&[0i64, 1, 7, 8, 100, 255, 256]);
                        out.line(&format!("C {b} {d}"));
                    }
                    _ => out.line(&format!("S {}", rng.below(20))),
                }
            }
        }
    }
    0
}

/// One live buffer as the oracle sees it.
struct Shadow {
    ptr: NonNull<u8>,
    len: usize,
    req: u32,
    pattern: u8,
    live: bool,
    pooled: bool,
}

struct Single {
    _arena: Box<Arena>,
    pool: HookPool,
    bufs: Vec<Shadow>,
}

struct Set {
    _arena: Box<Arena>,
    set: HookPoolSet<'static>,
    bufs: Vec<Shadow>,
}

fn fill(ptr: NonNull<u8>, len: usize, pat: u8) {
    unsafe { std::ptr::write_bytes(ptr.as_ptr(), pat, len) };
}

fn check_patterns(bufs: &[Shadow]) -> Option<String> {
    for (i, b) in bufs.iter().enumerate() {
        if !b.live {
            continue;
        }
        let s = unsafe { std::slice::from_raw_parts(b.ptr.as_ptr(), b.len) };
        if let Some(pos) = s.iter().position(|&x| x != b.pattern) {
            return Some(format!("buffer {i} byte {pos} changed while live (overlap)"));
        }
    }
    None
}

fn check_disjoint(bufs: &[Shadow]) -> Option<String> {
    let mut ranges: BTreeMap<usize, (usize, usize)> = BTreeMap::new();
    for (i, b) in bufs.iter().enumerate() {
        if b.live && b.len > 0 {
            ranges.insert(b.ptr.as_ptr() as usize, (b.len, i));
        }
    }
    let mut prev_end = 0usize;
    let mut prev_i = 0usize;
    for (start, (len, i)) in ranges {
        if start < prev_end {
            return Some(format!("live buffers {prev_i} and {i} overlap"));
        }
        prev_end = start + len;
        prev_i = i;
    }
    None
}

fn run() -> i32 {
    util::silence_panics();
    let lines = util::stdin_lines();
    let mut out = Out::new();
    let mut single: Option<Single> = None;
    let mut set: Option<Set> = None;
    let mut oracle_fails = 0u64;
    let mut skipping = false;
    for (lineno, line) in lines.iter().enumerate() {
        let w: Vec<&str> = line.split_whitespace().collect();
        if matches!(w.first(), Some(&"pool1") | Some(&"set")) {
            skipping = false;
        }
        if skipping {
            out.line("skipped");
            continue;
        }
        let r = util::catch(|| step(&w, &mut single, &mut set));
        match r {
            Ok((ans, oracle)) => {
                out.line(&ans);
                if let Some(msg) = oracle {
                    oracle_fails += 1;
                    eprintln!("ORACLE-FAIL {} {}", lineno + 1, msg);
                }
            }
            Err(msg) => {
                out.line("panic");
                eprintln!("PANIC {} {}", lineno + 1, msg.replace('\n', " "));
                skipping = true;
            }
        }
    }
    eprintln!("ORACLE-SUMMARY fails={oracle_fails} lines={}", lines.len());
    0
}

fn stats_str(s: hooks::PoolStats) -> (String, Option<String>) {
    let cons = s.live + s.free + (s.slot_count - s.bump) == s.slot_count;
    (
        format!("live={} free={} bump={}", s.live, s.free, s.bump),
        if cons { None } else { Some("conservation violated".to_string()) },
    )
}

fn step(w: &[&str], single: &mut Option<Single>, set: &mut Option<Set>) -> (String, Option<String>) {
    let bad = || ("bad-op".to_string(), None);
    match w {
        ["pool1", sz, cnt] => {
            let (Ok(sz), Ok(cnt)) = (sz.parse::<u32>(), cnt.parse::<u32>()) else { return bad() };
            let arena = Box::new(Arena::new(1 << 20).unwrap());
            let pool = HookPool::new(&arena, sz, cnt);
            *single = Some(Single { _arena: arena, pool, bufs: Vec::new() });
            ("ok".into(), None)
        }
        ["a"] => {
            let Some(s) = single.as_mut() else { return bad() };
            let st = s.pool.stats();
            match s.pool.alloc() {
                Some(p) => {
                    let ptr: NonNull<u8> = p.cast();
                    let len = p.len();
                    let idx = (ptr.as_ptr() as usize - s.pool.base() as usize) / st.slot_size as usize;
                    let pat = (s.bufs.len() as u8).wrapping_mul(31).wrapping_add(1) | 1;
                    let mut oracle = None;
                    if len < st.slot_size as usize {
                        oracle = Some("slot shorter than slot size".to_string());
                    }
                    fill(ptr, len, pat);
                    s.bufs.push(Shadow { ptr, len, req: 0, pattern: pat, live: true, pooled: true });
                    let oracle = oracle.or_else(|| check_disjoint(&s.bufs)).or_else(|| check_patterns(&s.bufs));
                    let live_now = s.bufs.iter().filter(|b| b.live).count() as u32;
                    let oracle = oracle.or_else(|| {
                        (s.pool.stats().live != live_now).then(|| "live counter differs from shadow".to_string())
                    });
                    (format!("slot {idx}"), oracle)
                }
                None => {
                    let live_now = s.bufs.iter().filter(|b| b.live).count() as u32;
                    let oracle = (live_now != st.slot_count)
                        .then(|| format!("alloc failed with {live_now} of {} slots live", st.slot_count));
                    ("none".into(), oracle)
                }
            }
        }
        ["f", n] => {
            let Some(s) = single.as_mut() else { return bad() };
            let Ok(n) = n.parse::<usize>() else { return bad() };
            let Some(b) = s.bufs.get_mut(n) else { return bad() };
            if !b.live {
                return bad();
            }
            let pre = check_patterns(&s.bufs);
            let b = &mut s.bufs[n];
            b.live = false;
            unsafe { s.pool.dealloc(b.ptr) };
            ("ok".into(), pre.or_else(|| check_patterns(&s.bufs)))
        }
        ["c", n, d] => {
            let Some(s) = single.as_ref() else { return bad() };
            let (Ok(n), Ok(d)) = (n.parse::<usize>(), d.parse::<isize>()) else { return bad() };
            let Some(b) = s.bufs.get(n) else { return bad() };
            let p = (b.ptr.as_ptr() as usize).wrapping_add_signed(d) as *const u8;
            let st = s.pool.stats();
            let ans = s.pool.contains(p);
            let base = s.pool.base() as usize;
            let expect = (p as usize) >= base && (p as usize) < base + (st.slot_size * st.slot_count) as usize;
            (ans.to_string(), (ans != expect).then(|| "contains differs from range test".to_string()))
        }
        ["s"] => {
            let Some(s) = single.as_ref() else { return bad() };
            stats_str(s.pool.stats())
        }
        ["set"] => {
            let arena = Box::new(Arena::new(8 << 20).unwrap());
            // The arena is boxed and outlives the set (dropped together, set first).
            let aref: &'static Arena = unsafe { &*(&*arena as *const Arena) };
            let ps = HookPoolSet::new(aref);
            *single = None;
            *set = None;
            *set = Some(Set { _arena: arena, set: ps, bufs: Vec::new() });
            ("ok".into(), None)
        }
        ["A", size] => {
            let Some(s) = set.as_mut() else { return bad() };
            let Ok(size) = size.parse::<u32>() else { return bad() };
            let p = s.set.alloc(size);
            let ptr: NonNull<u8> = p.cast();
            let len = p.len();
            let mut oracle = None;
            if len < size as usize {
                oracle = Some(format!("buffer of {len} bytes for a request of {size}"));
            }
            let pat = (s.bufs.len() as u8).wrapping_mul(37).wrapping_add(3) | 1;
            fill(ptr, len, pat);
            let mut found = None;
            for c in 0..hooks::CLASS_COUNT {
                let st = s.set.stats(c);
                let base = s.set.class_base(c) as usize;
                let a = ptr.as_ptr() as usize;
                if a >= base && a < base + (st.slot_size as usize * st.slot_count as usize) {
                    found = Some((c, (a - base) / st.slot_size as usize, (a - base) % st.slot_size as usize));
                }
            }
            let pooled = found.is_some();
            s.bufs.push(Shadow { ptr, len, req: size, pattern: pat, live: true, pooled });
            let oracle = oracle.or_else(|| check_disjoint(&s.bufs)).or_else(|| check_patterns(&s.bufs));
            let own = s.set.contains(ptr.as_ptr());
            let oracle = oracle.or_else(|| (own != pooled).then(|| "ownership test differs from range test".to_string()));
            match found {
                Some((c, idx, rem)) => {
                    let oracle = oracle.or_else(|| (rem != 0).then(|| "pooled buffer not on a slot boundary".to_string()));
                    (format!("pool {c} {idx} {len}"), oracle)
                }
                None => (format!("arena {len}"), oracle),
            }
        }
        ["F", n] => {
            let Some(s) = set.as_mut() else { return bad() };
            let Ok(n) = n.parse::<usize>() else { return bad() };
            let Some(b) = s.bufs.get(n) else { return bad() };
            if !b.live {
                return bad();
            }
            let pre = check_patterns(&s.bufs);
            let before: Vec<hooks::PoolStats> = (0..hooks::CLASS_COUNT).map(|c| s.set.stats(c)).collect();
            let (ptr, req, pooled) = (b.ptr, b.req, b.pooled);
            s.bufs[n].live = false;
            unsafe { s.set.dealloc(ptr, req) };
            let after: Vec<hooks::PoolStats> = (0..hooks::CLASS_COUNT).map(|c| s.set.stats(c)).collect();
            let mut oracle = pre.or_else(|| check_patterns(&s.bufs));
            if oracle.is_none() {
                // a pooled buffer goes back to exactly its class; a fallback buffer changes nothing
                let changed: Vec<usize> = (0..before.len()).filter(|&c| before[c] != after[c]).collect();
                if pooled {
                    let cls = (0..hooks::CLASS_COUNT)
                        .find(|&c| {
                            let st = s.set.stats(c);
                            let base = s.set.class_base(c) as usize;
                            let a = ptr.as_ptr() as usize;
                            a >= base && a < base + (st.slot_size as usize * st.slot_count as usize)
                        })
                        .unwrap() as usize;
                    if changed != vec![cls] || after[cls].free != before[cls].free + 1 || after[cls].live + 1 != before[cls].live {
                        oracle = Some(format!("release of a class-{cls} slot changed classes {changed:?}"));
                    }
                } else if !changed.is_empty() {
                    oracle = Some(format!("release of a fallback buffer changed classes {changed:?}"));
                }
            }
            ("ok".into(), oracle)
        }
        ["C", n, d] => {
            let Some(s) = set.as_ref() else { return bad() };
            let (Ok(n), Ok(d)) = (n.parse::<usize>(), d.parse::<isize>()) else { return bad() };
            let Some(b) = s.bufs.get(n) else { return bad() };
            let p = (b.ptr.as_ptr() as usize).wrapping_add_signed(d) as *const u8;
            (s.set.contains(p).to_string(), None)
        }
        ["S", c] => {
            let Some(s) = set.as_ref() else { return bad() };
            let Ok(c) = c.parse::<u32>() else { return bad() };
            if c >= hooks::CLASS_COUNT {
                return bad();
            }
            stats_str(s.set.stats(c))
        }
        ["P", c, d] => {
            let Some(s) = set.as_ref() else { return bad() };
            let (Ok(c), Ok(d)) = (c.parse::<u32>(), d.parse::<isize>()) else { return bad() };
            if c >= hooks::CLASS_COUNT {
                return bad();
            }
            let a = (s.set.class_base(c) as usize).wrapping_add_signed(d);
            let ans = s.set.contains(a as *const u8);
            let expect = (0..hooks::CLASS_COUNT).any(|k| {
                let st = s.set.stats(k);
                let base = s.set.class_base(k) as usize;
                a >= base && a < base + st.slot_size as usize * st.slot_count as usize
            });
            (ans.to_string(), (ans != expect).then(|| format!("ownership test says {ans} for an address {} a pooled slot", if expect { "inside" } else { "outside" })))
        }
        ["K", n] => {
            let Ok(n) = n.parse::<u32>() else { return bad() };
            (hooks::size_class(n).map_or("none".to_string(), |c| c.to_string()), None)
        }
        _ => bad(),
    }
}

#[allow(dead_code)]
fn _unused(a: &Arena) {
    let _ = a.allocate(Layout::new::<u8>());
}
