//! Family `pipe` — the real LIBRARY pipeline on program texts (lex → parse → resolve incl. analyses →
//! run with the frame arena and the optimisation plan), against the composed Lean pipeline
//! (`lean/NaijaVerif/Model/Pipeline.lean`, driver family `pipe`).
//!
//! ```text
//! src <hex text>        -> stage=syntax lex=<diags|?> syn=<diags>
//!                        | stage=semantic diags=<error diagnostics>
//!                        | stage=run warns=<warning diagnostics> out=<…> end=<ok | rt:<Kind>@lo:hi | panic@file:line>
//! pair <hex a> <hex b>  -> same | differ a=<span-free summary> b=<span-free summary>
//! front <hex text>      -> as `src`, but an accepted text is not run: stage=accepted warns=<…>
//! ```
//! `gen --kind progs|layouts|mutants`: program texts from `progen`; re-layouts of them (same tokens,
//! other separators, comments, CR/LF/CRLF, multi-word keywords re-spaced) as `pair` requests;
//! byte-level mutants (mostly rejected) to exercise the syntax/semantic stages.
//! Oracle (no model): the two members of a `pair` must behave alike → `ORACLE-FAIL … [C10]`.

use std::io::{BufRead, BufReader, Write};
use std::sync::Mutex;

use naijascript::arena::Arena;
use naijascript::diagnostics::{Diagnostics, Severity};
use naijascript::process::{HostPolicy, ProcessCaps};
use naijascript::resolver::Resolver;
use naijascript::runtime::Runtime;
use naijascript::syntax::parser::Parser;
use naijascript::syntax::scanner::Lexer;
use naijascript::syntax::token::Token;

use crate::util::{self, Out, Rng};
use crate::run::progen;
use crate::{lex, pipeline};

pub fn main(args: &[String]) -> i32 {
    match args.first().map(String::as_str) {
        Some("gen") => generate(&args[1..]),
        Some("run") => run(),
        _ => {
            eprintln!("usage: nvh pipe gen --seed S --n N --kind progs|layouts|mutants | nvh pipe run < requests");
            2
        }
    }
}

pub fn dump_tables(_out: &mut Vec<(String, String)>) {}

static LAST_PANIC: Mutex<String> = Mutex::new(String::new());

fn file_stem(path: &str) -> String {
    std::path::Path::new(path).file_name().and_then(|s| s.to_str()).unwrap_or(path).to_string()
}

fn kind_name(message: &str) -> &'static str {
    match message {
        "I/O error" => "Io",
        "Division by zero" => "DivisionByZero",
        "Stack overflow" => "StackOverflow",
        "Index out of bounds" => "IndexOutOfBounds",
        "Type mismatch" => "TypeMismatch",
        "Invalid index" => "InvalidIndex",
        "Unsupported process execution" => "ProcessUnsupported",
        "Process execution denied" => "ProcessDenied",
        "Process spawn failed" => "ProcessSpawnFailed",
        "Process timeout" => "ProcessTimeout",
        "Process output limit exceeded" => "ProcessOutputLimitExceeded",
        "Process output no be valid UTF-8" => "ProcessInvalidUtf8",
        "Invalid process configuration" => "ProcessSpecInvalid",
        _ => "Unknown",
    }
}

/// What the pipeline did with a text.
pub enum Res {
    Syntax { lex: String, syn: String, syn_kinds: String },
    Semantic { diags: String, kinds: String },
    Run { warns: String, warn_kinds: String, out: String, end: String, end_kind: String },
}

fn filtered(d: &Diagnostics<'_>, keep: impl Fn(&naijascript::diagnostics::Diagnostic<'_>) -> bool) -> (String, String) {
    let sel: Vec<_> = d.diagnostics.iter().filter(|x| keep(x)).collect();
    if sel.is_empty() {
        return ("-".into(), "-".into());
    }
    let full = sel
        .iter()
        .map(|x| {
            format!(
                "{}:{}:{}:{}:{}",
                pipeline::sev_name(x.severity),
                x.code,
                x.message.replace([' ', ',', ':'], "_"),
                x.span.start,
                x.span.end
            )
        })
        .collect::<Vec<_>>()
        .join(",");
    let kinds = sel
        .iter()
        .map(|x| format!("{}:{}", pipeline::sev_name(x.severity), x.message.replace([' ', ',', ':'], "_")))
        .collect::<Vec<_>>()
        .join(",");
    (full, kinds)
}

pub fn exec(src: &str) -> Res {
    exec_opt(src, true)
}

pub fn exec_opt(src: &str, run_it: bool) -> Res {
    let arena = Arena::new(pipeline::ARENA_CAP).unwrap();
    let frame = Arena::new(pipeline::ARENA_CAP).unwrap();
    let lexer = Lexer::new(src, &arena);
    let mut parser = Parser::new(lexer, &arena);
    let (root, errs) = parser.parse_program();
    if !errs.diagnostics.is_empty() {
        let (syn, syn_kinds) = filtered(errs, |d| d.code == "syntax");
        let (lexd, _) = filtered(errs, |d| d.code != "syntax");
        let lex = if syn == "-" { lexd } else { "?".to_string() };
        return Res::Syntax { lex, syn, syn_kinds };
    }
    let mut resolver = Resolver::new(&arena);
    resolver.resolve(root);
    if resolver.errors.has_errors() {
        let (diags, kinds) = filtered(&resolver.errors, |d| d.severity == Severity::Error);
        return Res::Semantic { diags, kinds };
    }
    let (warns, warn_kinds) = filtered(&resolver.errors, |_| true);
    if !run_it {
        return Res::Run { warns, warn_kinds, out: "none".into(), end: "notrun".into(), end_kind: "notrun".into() };
    }
    let policy = HostPolicy { allow_process: false, process: ProcessCaps::defaults() };
    let mut rt = Runtime::new_with_host_policy(&arena, Some(&frame), policy);
    let plan = resolver.optimization_plan.as_ref();
    let res = util::catch(|| {
        rt.run_with_analysis(root, &resolver.facts, plan);
    });
    let outs: Vec<String> = rt.output.iter().map(|v| util::hex(format!("{v}").as_bytes())).collect();
    let out = if outs.is_empty() { "none".to_string() } else { outs.join(",") };
    let (end, end_kind) = match res {
        Err(_) => {
            let loc = LAST_PANIC.lock().unwrap().clone();
            (format!("panic@{loc}"), "panic".to_string())
        }
        Ok(()) => match rt.errors.diagnostics.first() {
            None => ("ok".to_string(), "ok".to_string()),
            Some(d) => {
                let k = kind_name(d.message);
                (format!("rt:{k}@{}:{}", d.span.start, d.span.end), format!("rt:{k}"))
            }
        },
    };
    Res::Run { warns, warn_kinds, out, end, end_kind }
}

fn answer_src(src: &str) -> String {
    match exec(src) {
        Res::Syntax { lex, syn, .. } => format!("stage=syntax lex={lex} syn={syn}"),
        Res::Semantic { diags, .. } => format!("stage=semantic diags={diags}"),
        Res::Run { warns, out, end, .. } => format!("stage=run warns={warns} out={out} end={end}"),
    }
}

/// Span-free summary (what must not depend on layout). Panic sites are compared by the model with
/// their label; here only the fact of a panic.
fn summary(src: &str) -> String {
    match exec(src) {
        Res::Syntax { syn_kinds, .. } => format!("syntax:{syn_kinds}"),
        Res::Semantic { kinds, .. } => format!("semantic:{kinds}"),
        Res::Run { warn_kinds, out, end_kind, .. } => format!("run:{warn_kinds}:{out}:{end_kind}"),
    }
}

fn answer(line: &str, lineno: usize) -> String {
    let w: Vec<&str> = line.split_whitespace().collect();
    let text = |h: &str| util::unhex(h).and_then(|b| String::from_utf8(b).ok());
    match w.as_slice() {
        ["src", h] => match text(h) {
            Some(s) => util::catch(|| answer_src(&s)).unwrap_or_else(|_| format!("stage=panic@{}", LAST_PANIC.lock().unwrap())),
            None => "bad-request".into(),
        },
        ["front", h] => match text(h) {
            Some(s) => util::catch(|| match exec_opt(&s, false) {
                Res::Syntax { lex, syn, .. } => format!("stage=syntax lex={lex} syn={syn}"),
                Res::Semantic { diags, .. } => format!("stage=semantic diags={diags}"),
                Res::Run { warns, .. } => format!("stage=accepted warns={warns}"),
            })
            .unwrap_or_else(|_| format!("stage=panic@{}", LAST_PANIC.lock().unwrap())),
            None => "bad-request".into(),
        },
        ["pair", a, b] => match (text(a), text(b)) {
            (Some(x), Some(y)) => {
                let r = util::catch(|| (summary(&x), summary(&y)));
                match r {
                    Ok((sx, sy)) => {
                        if sx == sy {
                            "same".into()
                        } else {
                            eprintln!("ORACLE-FAIL {lineno} [C10] two layouts of the same tokens behave differently: {sx} vs {sy}");
                            // panic sites differ in detail between model and implementation summaries
                            format!("differ a={sx} b={sy}")
                        }
                    }
                    Err(_) => format!("stage=panic@{}", LAST_PANIC.lock().unwrap()),
                }
            }
            _ => "bad-request".into(),
        },
        _ => "bad-request".into(),
    }
}

fn run() -> i32 {
    // `shout` writes to the real stdout: answers go to a copy of fd 1, then fd 1 becomes /dev/null
    // … and `read_line` reads the real stdin: requests come from a copy of fd 0, then fd 0 is /dev/null
    let (req_fd, ans_fd) = unsafe {
        let r = libc::dup(0);
        let a = libc::dup(1);
        let null_r = libc::open(c"/dev/null".as_ptr(), libc::O_RDONLY);
        let null_w = libc::open(c"/dev/null".as_ptr(), libc::O_WRONLY);
        libc::dup2(null_r, 0);
        libc::dup2(null_w, 1);
        (r, a)
    };
    use std::os::fd::FromRawFd;
    let req = unsafe { std::fs::File::from_raw_fd(req_fd) };
    let mut ans = std::io::BufWriter::new(unsafe { std::fs::File::from_raw_fd(ans_fd) });
    std::panic::set_hook(Box::new(|info| {
        if let Some(l) = info.location() {
            *LAST_PANIC.lock().unwrap() = format!("{}:{}", file_stem(l.file()), l.line());
        }
    }));
    for (i, line) in BufReader::new(req).lines().map_while(Result::ok).enumerate() {
        let a = answer(&line, i + 1);
        if ans.write_all(a.as_bytes()).is_err() || ans.write_all(b"\n").is_err() {
            return 1;
        }
    }
    let _ = ans.flush();
    0
}

// ------------------------------------------------------------------------------------ generators

/// The lexemes of a text that lexes without diagnostics: (kind, source text of the token).
fn lexemes(src: &str) -> Option<Vec<(String, String)>> {
    let arena = Arena::new(pipeline::ARENA_CAP).ok()?;
    let mut lexer = Lexer::new(src, &arena);
    let toks = lex::drive(&mut lexer);
    if !lexer.errors.diagnostics.is_empty() {
        return None;
    }
    Some(
        toks.iter()
            .filter(|t| t.token != Token::EOF)
            .map(|t| (lex::kind_name(&t.token).to_string(), src[t.span.start..t.span.end].to_string()))
            .collect(),
    )
}

fn is_word_byte(b: u8) -> bool {
    b.is_ascii_alphanumeric() || b == b'_'
}

/// Would `a` directly followed by `b` lex differently from `a`, separator, `b`?
fn needs_sep(a: &(String, String), b: &(String, String)) -> bool {
    let (ka, ta) = (a.0.as_str(), a.1.as_str());
    let first = b.1.as_bytes()[0];
    let wordlike = !matches!(ka, "str" | "num" | "lparen" | "rparen" | "lbracket" | "rbracket" | "comma" | "dot");
    if wordlike {
        return is_word_byte(first);
    }
    if ka == "num" {
        return is_word_byte(first) || (first == b'.' && !ta.contains('.'));
    }
    false
}

fn ws(rng: &mut Rng) -> String {
    let mut s = String::new();
    for _ in 0..1 + rng.below(3) {
        s.push_str(rng.pick(&[" ", "\t", "\n", "\r", "\r\n", "\x0c", "  "]));
    }
    s
}

fn respace_multi(rng: &mut Rng, kind: &str, text: &str, style: u64) -> String {
    if !matches!(kind, "iftosay" | "ifnotso" | "smallpass") {
        return text.to_string();
    }
    let words: Vec<&str> = text.split(|c: char| c.is_ascii_whitespace()).filter(|w| !w.is_empty()).collect();
    let mut s = String::new();
    for (i, w) in words.iter().enumerate() {
        if i > 0 {
            match style {
                0 => s.push(' '),
                1 => s.push('\n'),
                4 => s.push_str("\r\n"),
                5 => s.push('\r'),
                _ => s.push_str(&ws(rng)),
            }
        }
        s.push_str(w);
    }
    s
}

/// One re-layout of a token sequence. Styles: 0 one space, 1 one token per line, 2 minimal
/// separators, 3 a comment after every token, 4 CRLF, 5 lone CR, 6 random separators/comments.
fn layout(rng: &mut Rng, toks: &[(String, String)], style: u64) -> String {
    let mut s = String::new();
    if style == 6 && rng.chance(1, 2) {
        s.push_str(&format!("# leading comment{}", rng.pick(&["\n", "\r", "\r\n"])));
    }
    for (i, t) in toks.iter().enumerate() {
        s.push_str(&respace_multi(rng, &t.0, &t.1, style));
        let last = i + 1 == toks.len();
        let must = !last && needs_sep(t, &toks[i + 1]);
        let hazard = t.0 == "ident" && (t.1 == "if" || t.1 == "small");
        let sep = match style {
            0 => " ".to_string(),
            1 => "\n".to_string(),
            2 => {
                if must || hazard {
                    " ".to_string()
                } else {
                    String::new()
                }
            }
            3 => format!(" # c{i} \"q\" 1. end\n"),
            4 => "\r\n".to_string(),
            5 => "\r".to_string(),
            _ => match rng.below(5) {
                0 if !(must || hazard) => String::new(),
                0 | 1 => " ".to_string(),
                2 => ws(rng),
                3 => format!(" #{}{}", rng.pick(&["", " é€", " make x get"]), rng.pick(&["\n", "\r", "\r\n"])),
                _ => format!("{}# a{}# b\n", ws(rng), rng.pick(&["\n", "\r"])),
            },
        };
        s.push_str(&sep);
    }
    s
}

fn generate(args: &[String]) -> i32 {
    let seed = util::opt_u64(args, "--seed", 1);
    let n = util::opt_u64(args, "--n", 500);
    let kind = util::opt(args, "--kind").unwrap_or("progs");
    let mut rng = Rng::new(seed ^ 0x91BE);
    let mut out = Out::new();
    let opts = progen::GenOpts::default();
    let mut made = 0u64;
    let mut guard = 0u64;
    while made < n && guard < n * 20 {
        guard += 1;
        let mut r = rng.fork();
        let prog = progen::gen_program(&mut r, &opts);
        match kind {
            "progs" => {
                out.line(&format!("src {}", util::hex(prog.as_bytes())));
                made += 1;
            }
            "layouts" => {
                let Some(toks) = lexemes(&prog) else { continue };
                if toks.is_empty() {
                    continue;
                }
                let canon = layout(&mut r, &toks, 0);
                // the canonical layout must itself be stable (idents such as `if to` are not)
                match lexemes(&canon) {
                    Some(l) if l.len() == toks.len() && l.iter().zip(&toks).all(|(a, b)| a.0 == b.0) => {}
                    _ => continue,
                }
                let style = 1 + r.below(6);
                let other = layout(&mut r, &toks, style);
                out.line(&format!("pair {} {}", util::hex(canon.as_bytes()), util::hex(other.as_bytes())));
                // and the re-laid-out text on its own through the whole pipeline
                out.line(&format!("src {}", util::hex(other.as_bytes())));
                made += 1;
            }
            _ => {
                // mutants: delete / duplicate / replace one token or a few bytes (kept valid UTF-8)
                let Some(toks) = lexemes(&prog) else { continue };
                if toks.len() < 3 {
                    continue;
                }
                let mut t = toks.clone();
                let i = r.below(t.len() as u64) as usize;
                match r.below(5) {
                    0 => {
                        t.remove(i);
                    }
                    1 => {
                        let x = t[i].clone();
                        t.insert(i, x);
                    }
                    2 => {
                        let j = r.below(t.len() as u64) as usize;
                        t.swap(i, j);
                    }
                    3 => {
                        let rep = *r.pick(&["end", "start", "(", ")", "get", "make", "1.", "\"x", "@", "x", "[", "]", ",", "comot", "return"]);
                        t[i] = ("ident".into(), rep.to_string());
                    }
                    _ => {
                        let rep = *r.pick(&["undefined_name", "nofn()", "1 add true", "\"s\" minus 1", "x.nomethod()", "shout()", "shout(1, 2)"]);
                        t[i] = ("ident".into(), rep.to_string());
                    }
                }
                let text: String = t.iter().map(|x| x.1.clone()).collect::<Vec<_>>().join(" ");
                out.line(&format!("front {}", util::hex(text.as_bytes())));
                made += 1;
            }
        }
    }
    0
}
