//! Family `pipe` — the real LIBRARY pipeline on program texts (lex → parse → resolve incl. analyses →
//! run with the frame arena and the optimisation plan), against the composed Lean pipeline
//! (`lean/NaijaVerif/Model/Pipeline.lean`, driver family `pipe`).
//!
//! ```text
//! src <hex text>        -> stage=syntax lex=<diags|?> syn=<diags>
//!                        | stage=semantic diags=<error diagnostics>
//!                        | stage=run warns=<warning diagnostics> out=<…> end=<ok | rt:<Kind>@lo:hi | panic@file:line>
//! pair <hex a> <hex b>  -> same | differ a=<span-free summary> b=<span-free summary>
//! front <hex text>      -> as `src`, but an accepted text is not run: stage=accepted warns=<…>
//! ```
//! `gen --kind progs|layouts|mutants|parens|static|recfns`: program texts from `progen`; re-layouts of
//! them (same tokens, other separators, comments, CR/LF/CRLF, multi-word keywords re-spaced) as `pair`
//! requests; token-level mutants (mostly rejected) to exercise the syntax/semantic stages; `parens` =
//! `pair`s of a program and the same tokens with REDUNDANT PARENTHESES around primaries in every
//! syntactic position (operand of a unary operator, head of a postfix chain, callee, argument, index,
//! element …); `static` = `front` requests biased to the static rules (C09): every rule category
//! injected in every nesting context, and string templates (placeholders next to `{{` / `}}`, doubled
//! braces, placeholders naming undeclared / out-of-scope / later-declared variables); `recfns` =
//! `front` requests with (mutually) recursive functions whose return value combines call results with
//! literals of other types (return-type inference must terminate, C07).
//! Oracle (no model): the two members of a `pair` must behave alike → `ORACLE-FAIL … [C10]`.
//!
//! `run` answers every case inside a WORKER subprocess (`nvh pipe worker`, see `supervise`): a case
//! that does not return (no answer after `CPU_LIMIT_MS` of the worker's CPU time) or that kills the
//! process (abort on `memory allocation failed`, stack overflow) is answered `stage=hang` /
//! `stage=abort:<status>` and reported as `ORACLE-FAIL <line> [C07] …`; a fresh worker continues with
//! the next request. `run --inproc` answers in-process (no isolation).

use std::io::{BufRead, BufReader, Write};
use std::sync::Mutex;

use naijascript::arena::Arena;
use naijascript::diagnostics::{Diagnostics, Severity};
use naijascript::process::{HostPolicy, ProcessCaps};
use naijascript::resolver::Resolver;
use naijascript::runtime::Runtime;
use naijascript::syntax::parser::Parser;
use naijascript::syntax::scanner::Lexer;
use naijascript::syntax::token::Token;

use crate::util::{self, Out, Rng};
use crate::run::progen;
use crate::{lex, pipeline};

pub fn main(args: &[String]) -> i32 {
    match args.first().map(String::as_str) {
        Some("gen") => generate(&args[1..]),
        Some("run") if util::flag(&args[1..], "--inproc") => worker(&args[1..]),
        Some("run") => supervise(&["pipe", "worker"], "pipeline", &|_line, what| format!("stage={what}")),
        Some("worker") => worker(&args[1..]),
        _ => {
            eprintln!("usage: nvh pipe gen --seed S --n N --kind progs|layouts|mutants|parens|static|recfns | nvh pipe run [--inproc] < requests");
            2
        }
    }
}

pub fn dump_tables(_out: &mut Vec<(String, String)>) {}

static LAST_PANIC: Mutex<String> = Mutex::new(String::new());

fn file_stem(path: &str) -> String {
    std::path::Path::new(path).file_name().and_then(|s| s.to_str()).unwrap_or(path).to_string()
}

fn kind_name(message: &str) -> &'static str {
    match message {
        "I/O error" => "Io",
        "Division by zero" => "DivisionByZero",
        "Stack overflow" => "StackOverflow",
        "Index out of bounds" => "IndexOutOfBounds",
        "Type mismatch" => "TypeMismatch",
        "Invalid index" => "InvalidIndex",
        "Unsupported process execution" => "ProcessUnsupported",
        "Process execution denied" => "ProcessDenied",
        "Process spawn failed" => "ProcessSpawnFailed",
        "Process timeout" => "ProcessTimeout",
        "Process output limit exceeded" => "ProcessOutputLimitExceeded",
        "Process output no be valid UTF-8" => "ProcessInvalidUtf8",
        "Invalid process configuration" => "ProcessSpecInvalid",
        _ => "Unknown",
    }
}

/// What the pipeline did with a text.
pub enum Res {
    Syntax { lex: String, syn: String, syn_kinds: String },
    Semantic { diags: String, kinds: String },
    Run { warns: String, warn_kinds: String, out: String, end: String, end_kind: String },
}

fn filtered(d: &Diagnostics<'_>, keep: impl Fn(&naijascript::diagnostics::Diagnostic<'_>) -> bool) -> (String, String) {
    let sel: Vec<_> = d.diagnostics.iter().filter(|x| keep(x)).collect();
    if sel.is_empty() {
        return ("-".into(), "-".into());
    }
    let full = sel
        .iter()
        .map(|x| {
            format!(
                "{}:{}:{}:{}:{}",
                pipeline::sev_name(x.severity),
                x.code,
                x.message.replace([' ', ',', ':'], "_"),
                x.span.start,
                x.span.end
            )
        })
        .collect::<Vec<_>>()
        .join(",");
    let kinds = sel
        .iter()
        .map(|x| format!("{}:{}", pipeline::sev_name(x.severity), x.message.replace([' ', ',', ':'], "_")))
        .collect::<Vec<_>>()
        .join(",");
    (full, kinds)
}

pub fn exec(src: &str) -> Res {
    exec_opt(src, true)
}

pub fn exec_opt(src: &str, run_it: bool) -> Res {
    let arena = Arena::new(pipeline::ARENA_CAP).unwrap();
    let frame = Arena::new(pipeline::ARENA_CAP).unwrap();
    let lexer = Lexer::new(src, &arena);
    let mut parser = Parser::new(lexer, &arena);
    let (root, errs) = parser.parse_program();
    if !errs.diagnostics.is_empty() {
        let (syn, syn_kinds) = filtered(errs, |d| d.code == "syntax");
        let (lexd, _) = filtered(errs, |d| d.code != "syntax");
        let lex = if syn == "-" { lexd } else { "?".to_string() };
        return Res::Syntax { lex, syn, syn_kinds };
    }
    let mut resolver = Resolver::new(&arena);
    resolver.resolve(root);
    if resolver.errors.has_errors() {
        let (diags, kinds) = filtered(&resolver.errors, |d| d.severity == Severity::Error);
        return Res::Semantic { diags, kinds };
    }
    let (warns, warn_kinds) = filtered(&resolver.errors, |_| true);
    if !run_it {
        return Res::Run { warns, warn_kinds, out: "none".into(), end: "notrun".into(), end_kind: "notrun".into() };
    }
    let policy = HostPolicy { allow_process: false, process: ProcessCaps::defaults() };
    let mut rt = Runtime::new_with_host_policy(&arena, Some(&frame), policy);
    let plan = resolver.optimization_plan.as_ref();
    let res = util::catch(|| {
        rt.run_with_analysis(root, &resolver.facts, plan);
    });
    let outs: Vec<String> = rt.output.iter().map(|v| util::hex(format!("{v}").as_bytes())).collect();
    let out = if outs.is_empty() { "none".to_string() } else { outs.join(",") };
    let (end, end_kind) = match res {
        Err(_) => {
            let loc = LAST_PANIC.lock().unwrap().clone();
            (format!("panic@{loc}"), "panic".to_string())
        }
        Ok(()) => match rt.errors.diagnostics.first() {
            None => ("ok".to_string(), "ok".to_string()),
            Some(d) => {
                let k = kind_name(d.message);
                (format!("rt:{k}@{}:{}", d.span.start, d.span.end), format!("rt:{k}"))
            }
        },
    };
    Res::Run { warns, warn_kinds, out, end, end_kind }
}

fn answer_src(src: &str) -> String {
    match exec(src) {
        Res::Syntax { lex, syn, .. } => format!("stage=syntax lex={lex} syn={syn}"),
        Res::Semantic { diags, .. } => format!("stage=semantic diags={diags}"),
        Res::Run { warns, out, end, .. } => format!("stage=run warns={warns} out={out} end={end}"),
    }
}

/// Span-free summary (what must not depend on layout). Panic sites are compared by the model with
/// their label; here only the fact of a panic.
fn summary(src: &str) -> String {
    match exec(src) {
        Res::Syntax { syn_kinds, .. } => format!("syntax:{syn_kinds}"),
        Res::Semantic { kinds, .. } => format!("semantic:{kinds}"),
        Res::Run { warn_kinds, out, end_kind, .. } => format!("run:{warn_kinds}:{out}:{end_kind}"),
    }
}

fn answer(line: &str, lineno: usize) -> String {
    let w: Vec<&str> = line.split_whitespace().collect();
    let text = |h: &str| util::unhex(h).and_then(|b| String::from_utf8(b).ok());
    match w.as_slice() {
        ["src", h] => match text(h) {
            Some(s) => util::catch(|| answer_src(&s)).unwrap_or_else(|_| format!("stage=panic@{}", LAST_PANIC.lock().unwrap())),
            None => "bad-request".into(),
        },
        ["front", h] => match text(h) {
            Some(s) => util::catch(|| match exec_opt(&s, false) {
                Res::Syntax { lex, syn, .. } => format!("stage=syntax lex={lex} syn={syn}"),
                Res::Semantic { diags, .. } => format!("stage=semantic diags={diags}"),
                Res::Run { warns, .. } => format!("stage=accepted warns={warns}"),
            })
            .unwrap_or_else(|_| format!("stage=panic@{}", LAST_PANIC.lock().unwrap())),
            None => "bad-request".into(),
        },
        ["pair", a, b] => match (text(a), text(b)) {
            (Some(x), Some(y)) => {
                let r = util::catch(|| (summary(&x), summary(&y)));
                match r {
                    Ok((sx, sy)) => {
                        if sx == sy {
                            "same".into()
                        } else {
                            eprintln!("ORACLE-FAIL {lineno} [C10] two texts that differ only in layout / redundant parentheses behave differently: {sx} vs {sy}");
                            // panic sites differ in detail between model and implementation summaries
                            format!("differ a={sx} b={sy}")
                        }
                    }
                    Err(_) => format!("stage=panic@{}", LAST_PANIC.lock().unwrap()),
                }
            }
            _ => "bad-request".into(),
        },
        _ => "bad-request".into(),
    }
}

/// Answers request lines one by one (flushing each answer): the body of a supervised worker, and of
/// `run --inproc`. `--base N`: the 1-based line number of the first request minus one.
fn worker(args: &[String]) -> i32 {
    let base = util::opt_u64(args, "--base", 0) as usize;
    limit_address_space();
    // `shout` writes to the real stdout: answers go to a copy of fd 1, then fd 1 becomes /dev/null
    // … and `read_line` reads the real stdin: requests come from a copy of fd 0, then fd 0 is /dev/null
    let (req_fd, ans_fd) = unsafe {
        let r = libc::dup(0);
        let a = libc::dup(1);
        let null_r = libc::open(c"/dev/null".as_ptr(), libc::O_RDONLY);
        let null_w = libc::open(c"/dev/null".as_ptr(), libc::O_WRONLY);
        libc::dup2(null_r, 0);
        libc::dup2(null_w, 1);
        (r, a)
    };
    use std::os::fd::FromRawFd;
    let req = unsafe { std::fs::File::from_raw_fd(req_fd) };
    let mut ans = unsafe { std::fs::File::from_raw_fd(ans_fd) };
    std::panic::set_hook(Box::new(|info| {
        if let Some(l) = info.location() {
            *LAST_PANIC.lock().unwrap() = format!("{}:{}", file_stem(l.file()), l.line());
        }
    }));
    for (i, line) in BufReader::new(req).lines().map_while(Result::ok).enumerate() {
        let mut a = answer(&line, base + i + 1);
        a.push('\n');
        if ans.write_all(a.as_bytes()).is_err() {
            return 1;
        }
    }
    0
}

// ------------------------------------------------------------------- supervised workers (hang oracle)

/// CPU time a worker may spend on ONE request before the case is declared a hang. Measured on the
/// worker's own clock (`/proc/<pid>/stat`), so a loaded machine cannot turn a slow case into a hang.
pub const CPU_LIMIT_MS: u64 = 4000;
/// Wall-clock bound for one request (a worker that neither computes nor answers).
pub const WALL_LIMIT_MS: u64 = 120_000;
/// After this many hang / abort cases in one run the remaining requests are answered `unrun` (each
/// such case costs seconds; the check already has its failing inputs).
pub const MAX_FAILS: usize = 4;
/// Address-space cap of a worker: a runaway allocation ends in `memory allocation failed` (abort)
/// instead of taking the machine down. The two 64 MiB arenas of a case are far below it.
const WORKER_AS_LIMIT: u64 = 8 << 30;

pub fn limit_address_space() {
    let lim = libc::rlimit { rlim_cur: WORKER_AS_LIMIT, rlim_max: WORKER_AS_LIMIT };
    unsafe {
        libc::setrlimit(libc::RLIMIT_AS, &lim);
    }
}

struct Kid {
    child: std::process::Child,
    stdin: std::process::ChildStdin,
    out: std::process::ChildStdout,
    buf: Vec<u8>,
}

enum Got {
    Line(String),
    Died,
    Hang(String),
}

/// utime + stime of a process in milliseconds (None once it is gone).
fn cpu_ms(pid: u32) -> Option<u64> {
    let stat = std::fs::read_to_string(format!("/proc/{pid}/stat")).ok()?;
    let rest = &stat[stat.rfind(')')? + 1..];
    let f: Vec<&str> = rest.split_whitespace().collect();
    let ticks = f.get(11)?.parse::<u64>().ok()? + f.get(12)?.parse::<u64>().ok()?;
    let hz = unsafe { libc::sysconf(libc::_SC_CLK_TCK) }.max(1) as u64;
    Some(ticks * 1000 / hz)
}

impl Kid {
    fn spawn(worker_args: &[&str], base: usize) -> Kid {
        use std::process::{Command, Stdio};
        let exe = std::env::current_exe().expect("current_exe");
        let mut child = Command::new(exe)
            .args(worker_args)
            .args(["--base", &base.to_string()])
            .env("RUST_BACKTRACE", "0")
            .stdin(Stdio::piped())
            .stdout(Stdio::piped())
            .stderr(Stdio::inherit())
            .spawn()
            .expect("spawn worker");
        let stdin = child.stdin.take().unwrap();
        let out = child.stdout.take().unwrap();
        Kid { child, stdin, out, buf: Vec::new() }
    }

    fn send(&mut self, line: &str) -> bool {
        self.stdin.write_all(line.as_bytes()).and_then(|()| self.stdin.write_all(b"\n")).and_then(|()| self.stdin.flush()).is_ok()
    }

    /// The next answer line, or why there is none.
    fn answer(&mut self) -> Got {
        use std::io::Read;
        use std::os::fd::AsRawFd;
        let start = std::time::Instant::now();
        let mut cpu0: Option<u64> = None;
        let mut tmp = [0u8; 1 << 16];
        loop {
            if let Some(p) = self.buf.iter().position(|b| *b == b'\n') {
                let rest = self.buf.split_off(p + 1);
                let mut line = std::mem::replace(&mut self.buf, rest);
                line.pop();
                return Got::Line(String::from_utf8_lossy(&line).into_owned());
            }
            let mut fds = libc::pollfd { fd: self.out.as_raw_fd(), events: libc::POLLIN, revents: 0 };
            let r = unsafe { libc::poll(&mut fds, 1, 200) };
            if r > 0 {
                match self.out.read(&mut tmp) {
                    Ok(0) | Err(_) => return Got::Died,
                    Ok(n) => self.buf.extend_from_slice(&tmp[..n]),
                }
            } else if r == 0 {
                // still no answer: how much has the worker computed since we first looked?
                if let Some(now) = cpu_ms(self.child.id()) {
                    match cpu0 {
                        None => cpu0 = Some(now),
                        Some(c0) if now.saturating_sub(c0) >= CPU_LIMIT_MS => {
                            return Got::Hang(format!("no answer after {} ms of CPU time", now - c0));
                        }
                        Some(_) => {}
                    }
                }
                if start.elapsed().as_millis() as u64 >= WALL_LIMIT_MS {
                    return Got::Hang(format!("no answer after {} s", WALL_LIMIT_MS / 1000));
                }
            }
        }
    }
}

/// `run` of a family whose cases may not return: feeds the request lines on stdin one at a time to a
/// child `nvh <worker_args> --base <lines answered so far>` (which answers one line per request on
/// its stdout and writes its own `ORACLE-FAIL` lines to the inherited stderr). A request on which
/// the child hangs or dies is answered `fail_answer(request, "hang" | "abort:<status>")`, reported
/// as `ORACLE-FAIL <line> [C07] …`, and a fresh child takes over. `stage`: what is being run, for
/// the message.
pub fn supervise(worker_args: &[&str], stage: &str, fail_answer: &dyn Fn(&str, &str) -> String) -> i32 {
    let stdin = std::io::stdin();
    let mut out = std::io::BufWriter::new(std::io::stdout());
    let mut kid: Option<Kid> = None;
    let mut fails = 0usize;
    let mut unrun = 0usize;
    for (i, line) in stdin.lock().lines().map_while(Result::ok).enumerate() {
        let ans = if fails >= MAX_FAILS {
            unrun += 1;
            "unrun".to_string()
        } else {
            let k = kid.get_or_insert_with(|| Kid::spawn(worker_args, i));
            let got = if k.send(&line) { k.answer() } else { Got::Died };
            match got {
                Got::Line(a) => a,
                Got::Died => {
                    fails += 1;
                    let mut k = kid.take().unwrap();
                    let status = k.child.wait().map_or("?".to_string(), |s| {
                        use std::os::unix::process::ExitStatusExt;
                        match (s.signal(), s.code()) {
                            (Some(sig), _) => format!("signal{sig}"),
                            (None, Some(c)) => format!("exit{c}"),
                            _ => "?".to_string(),
                        }
                    });
                    eprintln!("ORACLE-FAIL {} [C07] the {stage} killed the process on this input ({status}): neither diagnostics nor a program", i + 1);
                    fail_answer(&line, &format!("abort:{status}"))
                }
                Got::Hang(why) => {
                    fails += 1;
                    let mut k = kid.take().unwrap();
                    let _ = k.child.kill();
                    let _ = k.child.wait();
                    eprintln!("ORACLE-FAIL {} [C07] the {stage} did not return on this input ({why}; worker killed)", i + 1);
                    fail_answer(&line, "hang")
                }
            }
        };
        if out.write_all(ans.as_bytes()).is_err() || out.write_all(b"\n").is_err() {
            return 1;
        }
    }
    let _ = out.flush();
    if unrun > 0 {
        eprintln!("SUPERVISOR {unrun} requests not run after {MAX_FAILS} hang/abort cases");
    }
    if let Some(k) = kid.take() {
        let Kid { mut child, stdin, .. } = k;
        drop(stdin);
        let _ = child.wait();
    }
    0
}

// ------------------------------------------------------------------------------------ generators

/// The lexemes of a text that lexes without diagnostics: (kind, source text of the token).
fn lexemes(src: &str) -> Option<Vec<(String, String)>> {
    let arena = Arena::new(pipeline::ARENA_CAP).ok()?;
    let mut lexer = Lexer::new(src, &arena);
    let toks = lex::drive(&mut lexer);
    if !lexer.errors.diagnostics.is_empty() {
        return None;
    }
    Some(
        toks.iter()
            .filter(|t| t.token != Token::EOF)
            .map(|t| (lex::kind_name(&t.token).to_string(), src[t.span.start..t.span.end].to_string()))
            .collect(),
    )
}

fn is_word_byte(b: u8) -> bool {
    b.is_ascii_alphanumeric() || b == b'_'
}

/// Would `a` directly followed by `b` lex differently from `a`, separator, `b`?
fn needs_sep(a: &(String, String), b: &(String, String)) -> bool {
    let (ka, ta) = (a.0.as_str(), a.1.as_str());
    let first = b.1.as_bytes()[0];
    let wordlike = !matches!(ka, "str" | "num" | "lparen" | "rparen" | "lbracket" | "rbracket" | "comma" | "dot");
    if wordlike {
        return is_word_byte(first);
    }
    if ka == "num" {
        return is_word_byte(first) || (first == b'.' && !ta.contains('.'));
    }
    false
}

fn ws(rng: &mut Rng) -> String {
    let mut s = String::new();
    for _ in 0..1 + rng.below(3) {
        s.push_str(rng.pick(&[" ", "\t", "\n", "\r", "\r\n", "\x0c", "  "]));
    }
    s
}

fn respace_multi(rng: &mut Rng, kind: &str, text: &str, style: u64) -> String {
    if !matches!(kind, "iftosay" | "ifnotso" | "smallpass") {
        return text.to_string();
    }
    let words: Vec<&str> = text.split(|c: char| c.is_ascii_whitespace()).filter(|w| !w.is_empty()).collect();
    let mut s = String::new();
    for (i, w) in words.iter().enumerate() {
        if i > 0 {
            match style {
                0 => s.push(' '),
                1 => s.push('\n'),
                4 => s.push_str("\r\n"),
                5 => s.push('\r'),
                _ => s.push_str(&ws(rng)),
            }
        }
        s.push_str(w);
    }
    s
}

/// One re-layout of a token sequence. Styles: 0 one space, 1 one token per line, 2 minimal
/// separators, 3 a comment after every token, 4 CRLF, 5 lone CR, 6 random separators/comments.
fn layout(rng: &mut Rng, toks: &[(String, String)], style: u64) -> String {
    let mut s = String::new();
    if style == 6 && rng.chance(1, 2) {
        s.push_str(&format!("# leading comment{}", rng.pick(&["\n", "\r", "\r\n"])));
    }
    for (i, t) in toks.iter().enumerate() {
        s.push_str(&respace_multi(rng, &t.0, &t.1, style));
        let last = i + 1 == toks.len();
        let must = !last && needs_sep(t, &toks[i + 1]);
        let hazard = t.0 == "ident" && (t.1 == "if" || t.1 == "small");
        let sep = match style {
            0 => " ".to_string(),
            1 => "\n".to_string(),
            2 => {
                if must || hazard {
                    " ".to_string()
                } else {
                    String::new()
                }
            }
            3 => format!(" # c{i} \"q\" 1. end\n"),
            4 => "\r\n".to_string(),
            5 => "\r".to_string(),
            _ => match rng.below(5) {
                0 if !(must || hazard) => String::new(),
                0 | 1 => " ".to_string(),
                2 => ws(rng),
                3 => format!(" #{}{}", rng.pick(&["", " é€", " make x get"]), rng.pick(&["\n", "\r", "\r\n"])),
                _ => format!("{}# a{}# b\n", ws(rng), rng.pick(&["\n", "\r"])),
            },
        };
        s.push_str(&sep);
    }
    s
}

// ------------------------------------------------------------------ C09: string templates product

/// Template texts around the placeholder name `N` (`M` = a second name that is always declared).
/// `{{` / `}}` are the escapes for a literal brace and mean nothing inside a placeholder. The list
/// mixes shapes in which `N` IS a placeholder (plain, wrapped in / followed by / preceded by escapes,
/// padded, after malformed groups) with shapes in which it is text (`{{N}}`, `{N`, `{N.x}` …): the
/// composed model decides which is which.
const TEMPLATES: &[&str] = &[
    "{N}", "{{{N}}}", "{N}}}", "{{{N}", "}}{N}{{", "{ N }", "{\tN }", "{{ {N} }}", "{{{{{N}}}}}", "{M}{N}", "{N}{M}",
    "{{{M}}}{{{N}}}", "{M}}}{N}", "a {{b}} {N}", "{}{N}", "{1x}{N}}}", "{é}{N}", "{N}}", "}{N}", "{N}{", "{{{N}}}: {M}}}",
    "{N}}}}}", "{{{{{{{N}}}}}}}", "é{N}ü", "{N}\\n{{", "{M} {N} {M}", "{N }}", "{N}}}{{{N}", "set = {{ {N}}}", "{{{M}: {N}}}",
    "\\t{{{N}}}\\\"", "{ N}}}", "{{{N }}}",
    // N is text here
    "{{N}}", "{{{{N}}}}", "{{ N }}", "{N", "N}", "{N.x}", "{N M}", "{1N}", "{ñN}", "{x{N}}", "{{N}", "{{{{N}}", "{{N}} {M}",
];

/// What the name in the placeholder is, relative to the place of use.
const STATUSES: &[&str] = &[
    "outer", "inner", "undeclared", "sibling", "later", "later-outer", "param", "other-param", "nested-before", "loop-local",
    "shadow", "fn-name", "builtin", "undeclared", "sibling", "later",
];

const CONTEXTS: &[&str] = &["top", "block", "then", "else", "loop", "fn", "fn-in-loop", "nested-fn", "fn-in-block", "loop-in-fn"];

/// One program: a string template with a placeholder naming a variable of the chosen status, in
/// the chosen syntactic position, inside the chosen nesting context.
fn template_program(r: &mut Rng) -> String {
    let status = *r.pick(STATUSES);
    let ctx = *r.pick(CONTEXTS);
    let in_fn = matches!(ctx, "fn" | "fn-in-loop" | "nested-fn" | "fn-in-block" | "loop-in-fn");
    let inner_param = if ctx == "nested-fn" { "q" } else { "p" };
    let v: String = match status {
        "param" if in_fn => inner_param.to_string(),
        "builtin" => (*r.pick(&["shout", "typeof", "len", "command"])).to_string(),
        _ => (*r.pick(&["ghost", "v", "x1", "_u", "total", "i2"])).to_string(),
    };
    let shape = *r.pick(TEMPLATES);
    let quote = if shape.contains("\\\"") || r.chance(4, 5) { '"' } else { '\'' };
    let lit = format!("{quote}{}{quote}", shape.replace('N', &v).replace('M', "ok0"));
    let lit = if r.chance(1, 6) {
        // a second template in the same statement
        let other = r.pick(TEMPLATES).replace('N', &v).replace('M', "ok0").replace("\\\"", "");
        format!("{lit} add \"{other}\"")
    } else {
        lit
    };
    let use_stmt = match r.below(if in_fn { 14 } else { 13 }) {
        0 | 1 => format!("shout({lit})"),
        2 => format!("make s9 get {lit}\nshout(s9)"),
        3 => format!("make s9 get \"\"\ns9 get {lit}\nshout(s9)"),
        4 => format!("shout(({lit}).len())"),
        5 => format!("shout(\"abc\".find({lit}))"),
        6 => format!("make a9 get []\na9.push({lit})\nshout(a9)"),
        7 => format!("shout([1, {lit}, ok0])"),
        8 => format!("make a9 get [1, 2, 3]\nshout(a9[({lit}).len() mod 3])"),
        9 => format!("shout(to_string({lit}))"),
        10 => format!("shout({lit} add \"!\")"),
        11 => format!("if to say ({lit} na \"x\") start\n    shout(1)\nend"),
        12 => format!("make k9 get 0\njasi (k9 small pass 1 and not ({lit} na \"\")) start\n    k9 get k9 add 1\nend"),
        _ => format!("return {lit}"),
    };
    let decl = |val: &str| format!("make {v} get {val}");
    let (mut pre, mut in_pre, mut in_post, mut post) = (String::new(), String::new(), String::new(), String::new());
    match status {
        "outer" => pre = decl("1"),
        "inner" => in_pre = decl("\"in\""),
        "sibling" => pre = format!("start\n    {}\n    shout({v})\nend", decl("1")),
        "later" => in_post = format!("{}\nshout({v})", decl("2")),
        "later-outer" => post = format!("{}\nshout({v})", decl("3")),
        "other-param" => pre = format!("do other9({v}) start\n    return {v}\nend\nshout(other9(1))"),
        "nested-before" => in_pre = format!("start\n    {}\n    shout({v})\nend", decl("4")),
        "loop-local" => {
            in_pre = format!("make j9 get 0\njasi (j9 small pass 1) start\n    {}\n    shout({v})\n    j9 get j9 add 1\nend", decl("5"))
        }
        "shadow" => {
            pre = decl("1");
            in_pre = format!("start\n    {}\n    shout({v})\nend", decl("\"sh\""));
        }
        "fn-name" => pre = format!("do {v}() start\n    return 1\nend\nshout({v}())"),
        _ => {} // undeclared, builtin, param
    }
    let body = [in_pre.as_str(), use_stmt.as_str(), in_post.as_str()].iter().filter(|x| !x.is_empty()).cloned().collect::<Vec<_>>().join("\n");
    let wrapped = match ctx {
        "top" => body,
        "block" => format!("start\n{body}\nend"),
        "then" => format!("if to say (ok0 na 7) start\n{body}\nend"),
        "else" => format!("if to say (ok0 na 8) start\n    shout(0)\nend if not so start\n{body}\nend"),
        "loop" => format!("make i9 get 0\njasi (i9 small pass 2) start\n{body}\ni9 get i9 add 1\nend"),
        "fn" => format!("do fn9(p) start\n{body}\nend\nshout(fn9(1))"),
        "fn-in-loop" => format!("make i9 get 0\njasi (i9 small pass 2) start\ndo fn9(p) start\n{body}\nend\nshout(fn9(i9))\ni9 get i9 add 1\nend"),
        "nested-fn" => format!("do out9(p) start\ndo in9(q) start\n{body}\nend\nreturn in9(p)\nend\nshout(out9(1))"),
        "fn-in-block" => format!("start\ndo fn9(p) start\n{body}\nend\nshout(fn9(2))\nend"),
        _ => format!("do fn9(p) start\nmake i9 get 0\njasi (i9 small pass 2) start\n{body}\ni9 get i9 add 1\nend\nreturn i9\nend\nshout(fn9(1))"),
    };
    ["make ok0 get 7", pre.as_str(), wrapped.as_str(), post.as_str()].iter().filter(|x| !x.is_empty()).cloned().collect::<Vec<_>>().join("\n")
}

/// `--kind static`: texts biased to the static rules.
fn static_program(r: &mut Rng) -> String {
    match r.below(12) {
        0..=4 => template_program(r),
        5..=7 => {
            // one injected violation of one rule at a random opportunity, any nesting context
            let at = r.below(40) as i64;
            crate::resolve::gen_program(r, Some(at), false).0
        }
        8 | 9 => crate::resolve::gen_program(r, None, false).0,
        10 => crate::resolve::gen_program(r, None, true).0,
        _ => crate::resolve::gen_rec_program(r, false),
    }
}

// ------------------------------------------------------------------ C10: redundant parentheses

/// Self-contained statements in which a unary operator is applied to a postfix chain (member call,
/// index, call): the head of such a chain is a primary, so parentheses around it are redundant.
const UNARY_POSTFIX: &[&str] = &[
    "make uq1 get 3.5\nshout(minus uq1.abs())",
    "make uq2 get [4, 5]\nshout(minus uq2[1])",
    "make uq3 get [true, false]\nshout(not uq3[1])",
    "do uq4(z) start\n    return z add 1\nend\nshout(minus uq4(1))",
    "make uq5 get \"hello\"\nshout(minus uq5.len())",
    "shout(minus 2.5.abs().sqrt())",
    "make uq6 get [[1, 2], [3]]\nshout(minus uq6[0][1])\nshout(not uq6[1].len() na 1)",
    "make uq7 get [\"ab\", \"c\"]\nshout(minus uq7[0].len() add uq7.len())",
    "do uq8() start\n    return [false]\nend\nshout(not uq8()[0])",
    "make uq9 get 2\nshout(1 minus minus uq9.abs() times 3)",
];

/// The token list with redundant parentheses around primaries: every literal, and every identifier
/// in expression position (after `(`, `[`, `,`, `get`, `return` or an operator; never a declared
/// name, a parameter, a member name or the head of a statement). A primary under a unary operator
/// or at the head of a postfix chain is wrapped most often. None when there is nothing to wrap.
fn wrap_primaries(r: &mut Rng, toks: &[(String, String)]) -> Option<Vec<(String, String)>> {
    let kind = |i: usize| toks.get(i).map_or("", |t| t.0.as_str());
    let mut cand: Vec<(usize, bool)> = Vec::new();
    let mut in_params = false;
    for i in 0..toks.len() {
        let k = kind(i);
        if k == "lparen" && i >= 2 && kind(i - 2) == "do" && kind(i - 1) == "ident" {
            in_params = true;
            continue;
        }
        if in_params {
            in_params = k != "rparen";
            continue;
        }
        let prev = if i > 0 { kind(i - 1) } else { "" };
        let next = kind(i + 1);
        let expr_pos = matches!(
            prev,
            "lparen" | "lbracket" | "comma" | "get" | "return" | "add" | "minus" | "times" | "divide" | "mod" | "and" | "or" | "not"
                | "na" | "pass" | "smallpass"
        );
        let primary = match k {
            "num" | "str" | "true" | "false" | "null" => expr_pos,
            "ident" => expr_pos && next != "get",
            _ => false,
        };
        if primary {
            let hot = matches!(prev, "minus" | "not") || matches!(next, "dot" | "lbracket" | "lparen");
            cand.push((i, hot));
        }
    }
    if cand.is_empty() {
        return None;
    }
    let forced = r.below(cand.len() as u64) as usize;
    let mut out = Vec::with_capacity(toks.len() + 8);
    let mut ci = 0;
    for (i, t) in toks.iter().enumerate() {
        let mut depth = 0;
        if ci < cand.len() && cand[ci].0 == i {
            let (_, hot) = cand[ci];
            if ci == forced || (hot && r.chance(1, 2)) || r.chance(1, 6) {
                depth = if r.chance(1, 8) { 2 } else { 1 };
            }
            ci += 1;
        }
        for _ in 0..depth {
            out.push(("lparen".to_string(), "(".to_string()));
        }
        out.push(t.clone());
        for _ in 0..depth {
            out.push(("rparen".to_string(), ")".to_string()));
        }
    }
    Some(out)
}

/// No syntax diagnostic from the real parser (redundant parentheses are only redundant in a text that
/// parses: inside error recovery a `)` is a synchronisation token).
fn parses_clean(src: &str) -> bool {
    util::catch(|| {
        let arena = Arena::new(pipeline::ARENA_CAP).unwrap();
        pipeline::with_parsed(src, &arena, |_, d| d.diagnostics.is_empty())
    })
    .unwrap_or(false)
}

/// `progs` (texts that are RUN on both sides) also carries the recursive-function families: they are accepted
/// through dynamic typing and then compare / combine values of different run-time types (`[] pass []`,
/// `true na 1`), which ends the real run with `rt:TypeMismatch@lo:hi` (the sites fixed for D-06); the pipe
/// driver evaluates the fixed behaviour (`panics := false`) like `Driver/Run.lean`.
const MIX_REC_INTO_PROGS: bool = true;

fn generate(args: &[String]) -> i32 {
    let seed = util::opt_u64(args, "--seed", 1);
    let n = util::opt_u64(args, "--n", 500);
    let kind = util::opt(args, "--kind").unwrap_or("progs");
    let mut rng = Rng::new(seed ^ 0x91BE);
    let mut out = Out::new();
    let opts = progen::GenOpts::default();
    let mut made = 0u64;
    let mut guard = 0u64;
    // a second stream for what was added later (recursive-function cases mixed into `progs` /
    // `mutants`): the programs drawn from `rng` are the same with and without the additions
    let mut mix = Rng::new(seed ^ 0x4D49_58);
    if !matches!(kind, "progs" | "layouts" | "mutants" | "parens" | "static" | "recfns") {
        eprintln!("unknown --kind {kind}");
        return 2;
    }
    while made < n && guard < n * 20 {
        guard += 1;
        let mut r = rng.fork();
        match kind {
            "static" => {
                out.line(&format!("front {}", util::hex(static_program(&mut r).as_bytes())));
                made += 1;
                continue;
            }
            "recfns" => {
                out.line(&format!("front {}", util::hex(crate::resolve::gen_rec_program(&mut r, false).as_bytes())));
                made += 1;
                continue;
            }
            _ => {}
        }
        let prog = progen::gen_program(&mut r, &opts);
        match kind {
            "progs" => {
                if MIX_REC_INTO_PROGS && mix.chance(1, 12) {
                    // (mutually) recursive functions whose result is compared / combined with literals of
                    // other types, every one with a base case and called into: runs and terminates
                    let rec = crate::resolve::gen_rec_program(&mut mix, true);
                    let text = if mix.chance(1, 2) { rec } else { format!("{rec}\n{prog}") };
                    out.line(&format!("src {}", util::hex(text.as_bytes())));
                } else {
                    out.line(&format!("src {}", util::hex(prog.as_bytes())));
                }
                made += 1;
            }
            "parens" => {
                let text = if r.chance(1, 2) {
                    let a = *r.pick(UNARY_POSTFIX);
                    if r.chance(1, 3) { format!("{prog}\n{a}\n{}", r.pick(UNARY_POSTFIX).replace("uq", "ur")) } else { format!("{prog}\n{a}") }
                } else {
                    prog.clone()
                };
                let Some(toks) = lexemes(&text) else { continue };
                let canon = layout(&mut r, &toks, 0);
                match lexemes(&canon) {
                    Some(l) if l.len() == toks.len() && l.iter().zip(&toks).all(|(a, b)| a.0 == b.0) => {}
                    _ => continue,
                }
                if !parses_clean(&canon) {
                    continue;
                }
                let Some(wrapped) = wrap_primaries(&mut r, &toks) else { continue };
                let other = layout(&mut r, &wrapped, 0);
                out.line(&format!("pair {} {}", util::hex(canon.as_bytes()), util::hex(other.as_bytes())));
                out.line(&format!("src {}", util::hex(other.as_bytes())));
                made += 1;
            }
            "layouts" => {
                let Some(toks) = lexemes(&prog) else { continue };
                if toks.is_empty() {
                    continue;
                }
                let canon = layout(&mut r, &toks, 0);
                // the canonical layout must itself be stable (idents such as `if to` are not)
                match lexemes(&canon) {
                    Some(l) if l.len() == toks.len() && l.iter().zip(&toks).all(|(a, b)| a.0 == b.0) => {}
                    _ => continue,
                }
                let style = 1 + r.below(6);
                let other = layout(&mut r, &toks, style);
                out.line(&format!("pair {} {}", util::hex(canon.as_bytes()), util::hex(other.as_bytes())));
                // and the re-laid-out text on its own through the whole pipeline
                out.line(&format!("src {}", util::hex(other.as_bytes())));
                made += 1;
            }
            _ => {
                if mix.chance(1, 8) {
                    // return-type inference over call cycles must terminate (C07)
                    let rec = crate::resolve::gen_rec_program(&mut mix, false);
                    let text = if mix.chance(1, 3) { format!("{prog}\n{rec}") } else { rec };
                    out.line(&format!("front {}", util::hex(text.as_bytes())));
                    made += 1;
                    continue;
                }
                // mutants: delete / duplicate / replace one token or a few bytes (kept valid UTF-8)
                let Some(toks) = lexemes(&prog) else { continue };
                if toks.len() < 3 {
                    continue;
                }
                let mut t = toks.clone();
                let i = r.below(t.len() as u64) as usize;
                match r.below(5) {
                    0 => {
                        t.remove(i);
                    }
                    1 => {
                        let x = t[i].clone();
                        t.insert(i, x);
                    }
                    2 => {
                        let j = r.below(t.len() as u64) as usize;
                        t.swap(i, j);
                    }
                    3 => {
                        let rep = *r.pick(&["end", "start", "(", ")", "get", "make", "1.", "\"x", "@", "x", "[", "]", ",", "comot", "return"]);
                        t[i] = ("ident".into(), rep.to_string());
                    }
                    _ => {
                        let rep = *r.pick(&["undefined_name", "nofn()", "1 add true", "\"s\" minus 1", "x.nomethod()", "shout()", "shout(1, 2)"]);
                        t[i] = ("ident".into(), rep.to_string());
                    }
                }
                let text: String = t.iter().map(|x| x.1.clone()).collect::<Vec<_>>().join(" ");
                out.line(&format!("front {}", util::hex(text.as_bytes())));
                made += 1;
            }
        }
    }
    0
}
