//! Family `lex` (C07 lexer part, C10 lexer part): the real `Lexer`, driven exactly as `Parser::new` /
//! `Parser::bump` drive it.
//!
//! Protocol (one request per line, one answer per line):
//! ```text
//! lex <hex src>                 -> toks=<T> diags=<D> labels=<L> caps=<C> end=<ok|panic|abort|timeout>
//! relay <hex orig> <hex text>   -> the same answer for <text>; the oracle additionally requires the
//!                                  kinds and payloads of <text> to equal those of <orig> (C10)
//! ```
//! `<T>`: tokens joined by `,`, each `<kind>@<lo>:<hi>`; `ident:<hex>`, `num:<hex>`, `str:<hex>:<0|1>`
//! carry their payload (`-` = empty; last field of `str` is 1 iff the token is `ArenaCow::Owned`,
//! i.e. the literal contained an escape). The list always ends with the `eof` the parser makes up
//! when the iterator returns `None` (`0:0` with no token, else `h:h`, `h` = end of the last token).
//! `<D>` = `pipeline::diags_str`, `<L>` = `pipeline::labels_str` of `lexer.errors`.
//! `<C>`: `buffer.capacity()` of every `ArenaCow::Owned` string token, in token order, joined by `,`
//! (`-` = none): what `scan_string` made the bump arena hand out for the token (model:
//! `Model/LexMem.lean`, `lexCaps`; the arena never takes it back, so the sum is the lexer's share of D-19).
//! A request whose payload is not valid UTF-8 is answered `bad-utf8` (a `&str` cannot hold it).
//!
//! `run` answers every case inside a child process (`nvh lex worker`) that is fed line by line over
//! pipes: a stack overflow or an abort kills only the child; the in-flight case is answered
//! `toks=? diags=? labels=? caps=? end=abort`, a hang `end=timeout`, and a new child is started.
//! Implementation-level oracle (needs no model): `end=ok`; every token / diagnostic / label span is
//! ordered, within the text and on `is_char_boundary`; token spans do not overlap and do not go
//! backwards; string payloads are valid UTF-8; string buffers hold their content, each capacity is at
//! most `2·extent` (`2·(|text| - start)` if the token's quote character does not occur again) and all
//! capacities of one text sum to at most `3·|text|` (`Props/C07Mem.lean`: `strCap_le`,
//! `lexCaps_sum_le`, checked here on the real capacities).
//! Failures: `ORACLE-FAIL <line> <what>` on stderr.

use std::io::{BufRead, BufReader, Write};
use std::process::{Child, ChildStdin, Command, Stdio};
use std::sync::mpsc::{self, Receiver};
use std::time::Duration;

use naijascript::arena::{Arena, ArenaCow};
use naijascript::diagnostics::Diagnostics;
use naijascript::syntax::scanner::Lexer;
use naijascript::syntax::token::{SpannedToken, Token};

use crate::pipeline;
use crate::util::{self, Out, Rng};

pub fn main(args: &[String]) -> i32 {
    match args.first().map(String::as_str) {
        Some("gen") => generate(&args[1..]),
        Some("run") => run(&args[1..]),
        Some("worker") => worker(),
        Some("toks") => {
            // debugging aid: nvh lex toks <hex>
            let src = args.get(1).and_then(|h| util::unhex(h)).and_then(|b| String::from_utf8(b).ok());
            match src {
                Some(s) => {
                    println!("{}", toks_str(&s));
                    0
                }
                None => 2,
            }
        }
        _ => {
            eprintln!(
                "usage: nvh lex gen --seed S --n N --kind grammar|strings|trunc|relayout|deep [--repo DIR] | nvh lex run [--inproc] < requests"
            );
            2
        }
    }
}

/// The byte classes of `std` the lexer relies on (`u8::is_ascii_whitespace`, `is_ascii_digit`,
/// `is_ascii_alphabetic`, `is_ascii_alphanumeric`), evaluated over all 256 bytes. The lexer's own
/// tables are private `match` arms, extracted by regex (`extract/gen_lex.py`).
pub fn dump_tables(out: &mut Vec<(String, String)>) {
    let set = |f: fn(&u8) -> bool| format!("{:?}", (0u16..256).map(|b| b as u8).filter(f).collect::<Vec<u8>>());
    out.push(("lex_is_ascii_whitespace".into(), set(u8::is_ascii_whitespace)));
    out.push(("lex_is_ascii_digit".into(), set(u8::is_ascii_digit)));
    out.push(("lex_is_ascii_alphabetic".into(), set(u8::is_ascii_alphabetic)));
    out.push(("lex_is_ascii_alphanumeric".into(), set(u8::is_ascii_alphanumeric)));
    out.push(("lex_is_ascii".into(), set(u8::is_ascii)));
    out.push(("lex_len_utf8_by_lead".into(), {
        // length of the character for every possible lead byte (0 = not a lead byte)
        let mut v = vec![0usize; 256];
        for c in (0u32..=0x10ffff).filter_map(char::from_u32) {
            let mut buf = [0u8; 4];
            let s = c.encode_utf8(&mut buf);
            v[s.as_bytes()[0] as usize] = c.len_utf8();
        }
        format!("{v:?}")
    }));
}

// ------------------------------------------------------------------------------------------------
// the real lexer, as the parser drives it
// ------------------------------------------------------------------------------------------------

pub fn kind_name(t: &Token<'_>) -> &'static str {
    match t {
        Token::String(_) => "str",
        Token::Identifier(_) => "ident",
        Token::Number(_) => "num",
        Token::Make => "make",
        Token::Get => "get",
        Token::Add => "add",
        Token::Minus => "minus",
        Token::Times => "times",
        Token::Divide => "divide",
        Token::Mod => "mod",
        Token::And => "and",
        Token::Or => "or",
        Token::Not => "not",
        Token::Jasi => "jasi",
        Token::Start => "start",
        Token::End => "end",
        Token::Comot => "comot",
        Token::Next => "next",
        Token::Na => "na",
        Token::Pass => "pass",
        Token::SmallPass => "smallpass",
        Token::IfToSay => "iftosay",
        Token::IfNotSo => "ifnotso",
        Token::Do => "do",
        Token::Return => "return",
        Token::True => "true",
        Token::False => "false",
        Token::Null => "null",
        Token::LParen => "lparen",
        Token::RParen => "rparen",
        Token::LBracket => "lbracket",
        Token::RBracket => "rbracket",
        Token::Comma => "comma",
        Token::Dot => "dot",
        Token::EOF => "eof",
    }
}

/// `kind[:payload[:esc]]` — the span-free part of a token's text.
pub fn tok_payload(t: &Token<'_>) -> String {
    match t {
        Token::String(c) => {
            let owned = matches!(c, ArenaCow::Owned(_));
            format!("str:{}:{}", util::hex(c.as_bytes()), u8::from(owned))
        }
        Token::Identifier(s) => format!("ident:{}", util::hex(s.as_bytes())),
        Token::Number(s) => format!("num:{}", util::hex(s.as_bytes())),
        other => kind_name(other).to_string(),
    }
}

pub fn tok_str(st: &SpannedToken<'_>) -> String {
    format!("{}@{}:{}", tok_payload(&st.token), st.span.start, st.span.end)
}

/// Pull tokens out of `lexer` the way `Parser::new` and `Parser::bump` do: the first with
/// `unwrap_or_default()`, the following with `unwrap_or(EOF at cur.span.end)`, until EOF is current.
pub fn drive<'a>(lexer: &mut Lexer<'a, 'a>) -> Vec<SpannedToken<'a>> {
    // NB: tokens are moved, never cloned: `ArenaCow::clone` turns `Owned` into `Borrowed`.
    let mut out: Vec<SpannedToken<'a>> = Vec::new();
    out.push(lexer.next().unwrap_or_default());
    loop {
        let cur = out.last().unwrap();
        if cur.token == Token::EOF {
            break;
        }
        let end = cur.span.end;
        let next = lexer.next().unwrap_or(SpannedToken { token: Token::EOF, span: (end..end).into() });
        out.push(next);
    }
    out
}

pub fn toks_text(toks: &[SpannedToken<'_>]) -> String {
    if toks.is_empty() {
        return "-".to_string();
    }
    toks.iter().map(tok_str).collect::<Vec<_>>().join(",")
}

/// `(token index, buffer.capacity())` of every `ArenaCow::Owned` string token.
pub fn owned_caps(toks: &[SpannedToken<'_>]) -> Vec<(usize, usize)> {
    toks.iter()
        .enumerate()
        .filter_map(|(i, t)| match &t.token {
            Token::String(ArenaCow::Owned(s)) => Some((i, s.capacity())),
            _ => None,
        })
        .collect()
}

/// The `caps=` field: capacities of the owned string tokens in order (`-` = none).
pub fn caps_text(toks: &[SpannedToken<'_>]) -> String {
    let caps = owned_caps(toks);
    if caps.is_empty() {
        return "-".to_string();
    }
    caps.iter().map(|(_, c)| c.to_string()).collect::<Vec<_>>().join(",")
}

/// The token list text of `src` (real `Lexer`, driven as the parser drives it).
pub fn toks_str(src: &str) -> String {
    let arena = Arena::new(pipeline::ARENA_CAP).unwrap();
    let mut lexer = Lexer::new(src, &arena);
    let toks = drive(&mut lexer);
    toks_text(&toks)
}

fn span_ok(src: &str, lo: usize, hi: usize) -> Option<&'static str> {
    if lo > hi {
        return Some("start > end");
    }
    if hi > src.len() {
        return Some("end beyond the text");
    }
    if !src.is_char_boundary(lo) || !src.is_char_boundary(hi) {
        return Some("not on a character boundary");
    }
    None
}

fn oracle(src: &str, toks: &[SpannedToken<'_>], errs: &Diagnostics<'_>) -> Option<String> {
    let mut prev_end = 0usize;
    for (i, t) in toks.iter().enumerate() {
        if let Some(w) = span_ok(src, t.span.start, t.span.end) {
            return Some(format!("token {i} ({}) span {}..{}: {w}", kind_name(&t.token), t.span.start, t.span.end));
        }
        if t.span.start < prev_end {
            return Some(format!(
                "token {i} ({}) starts at {} before the end {} of its predecessor",
                kind_name(&t.token),
                t.span.start,
                prev_end
            ));
        }
        prev_end = t.span.end;
        if let Token::String(c) = &t.token {
            if std::str::from_utf8(c.as_bytes()).is_err() {
                return Some(format!("string token {i} content is not valid UTF-8: {}", util::hex(c.as_bytes())));
            }
        }
    }
    // the string buffers (C07Mem): content fits, per-token bound, linear total
    let mut sum = 0usize;
    for (i, cap) in owned_caps(toks) {
        let t = &toks[i];
        let len = match &t.token {
            Token::String(c) => c.as_bytes().len(),
            _ => 0,
        };
        let extent = t.span.end - t.span.start;
        // `scan_string` left through an end-of-input exit only if its quote character does not occur again
        let quote = src.as_bytes().get(t.span.start).copied();
        let quote_later = quote.is_some_and(|q| src.as_bytes()[t.span.end.min(src.len())..].contains(&q));
        let bound = if quote_later { 2 * extent } else { 2 * (src.len() - t.span.start.min(src.len())) };
        if cap < len {
            return Some(format!("string token {i}: buffer capacity {cap} below its length {len}"));
        }
        if cap > bound {
            return Some(format!(
                "string token {i} at {}..{}: buffer capacity {cap} exceeds {bound} = 2*{} (strCap_le)",
                t.span.start,
                t.span.end,
                if quote_later { "extent" } else { "(|text| - start), its quote does not occur again" }
            ));
        }
        sum += cap;
    }
    if sum > 3 * src.len() {
        return Some(format!(
            "string buffer capacities sum to {sum}, more than 3*|text| = {} (lexCaps_sum_le): {}",
            3 * src.len(),
            caps_text(toks)
        ));
    }
    for (i, d) in errs.diagnostics.iter().enumerate() {
        if let Some(w) = span_ok(src, d.span.start, d.span.end) {
            return Some(format!("diagnostic {i} span {}..{}: {w}", d.span.start, d.span.end));
        }
        for l in d.labels.iter() {
            if let Some(w) = span_ok(src, l.span.start, l.span.end) {
                return Some(format!("diagnostic {i} label span {}..{}: {w}", l.span.start, l.span.end));
            }
        }
    }
    None
}

struct Lexed {
    answer: String,
    payloads: Vec<String>,
    oracle: Option<String>,
}

fn lex_real(src: &str) -> Lexed {
    let arena = Arena::new(pipeline::ARENA_CAP).unwrap();
    let mut lexer = Lexer::new(src, &arena);
    let toks = drive(&mut lexer);
    let answer = format!(
        "toks={} diags={} labels={} caps={} end=ok",
        toks_text(&toks),
        pipeline::diags_str(&lexer.errors),
        pipeline::labels_str(&lexer.errors),
        caps_text(&toks)
    );
    let payloads = toks.iter().map(|t| tok_payload(&t.token)).collect();
    let oracle = oracle(src, &toks, &lexer.errors);
    Lexed { answer, payloads, oracle }
}

/// Answer one request in this process. Returns (answer, oracle failure).
fn answer_line(line: &str) -> (String, Option<String>) {
    let w: Vec<&str> = line.split_whitespace().collect();
    let text = |h: &str| util::unhex(h).and_then(|b| String::from_utf8(b).ok());
    match w.as_slice() {
        ["lex", h] => {
            let Some(src) = text(h) else { return ("bad-utf8".into(), None) };
            match util::catch(|| lex_real(&src)) {
                Ok(l) => (l.answer, l.oracle),
                Err(msg) => (
                    "toks=? diags=? labels=? caps=? end=panic".into(),
                    Some(format!("lexer panicked: {}", msg.replace('\n', " "))),
                ),
            }
        }
        ["relay", ho, ht] => {
            let (Some(orig), Some(src)) = (text(ho), text(ht)) else { return ("bad-utf8".into(), None) };
            match util::catch(|| (lex_real(&orig), lex_real(&src))) {
                Ok((o, l)) => {
                    let mut fail = l.oracle;
                    if fail.is_none() && o.payloads != l.payloads {
                        let i = o.payloads.iter().zip(l.payloads.iter()).position(|(a, b)| a != b);
                        fail = Some(format!(
                            "re-layout changes the token sequence (first difference at token {:?}: {} vs {}; {} vs {} tokens)",
                            i,
                            i.map_or("-", |i| o.payloads[i].as_str()),
                            i.map_or("-", |i| l.payloads[i].as_str()),
                            o.payloads.len(),
                            l.payloads.len()
                        ));
                    }
                    if fail.is_none() && (o.answer.contains("diags=-") != l.answer.contains("diags=-")) {
                        fail = Some("re-layout changes whether the lexer reports diagnostics".into());
                    }
                    (l.answer, fail)
                }
                Err(msg) => (
                    "toks=? diags=? labels=? caps=? end=panic".into(),
                    Some(format!("lexer panicked: {}", msg.replace('\n', " "))),
                ),
            }
        }
        _ => ("bad-op".into(), None),
    }
}

// ------------------------------------------------------------------------------------------------
// run: parent + worker children
// ------------------------------------------------------------------------------------------------

/// Child: one request per line on stdin, one line `<answer>\t<oracle message or empty>` on stdout.
fn worker() -> i32 {
    util::silence_panics();
    let stdin = std::io::stdin();
    let stdout = std::io::stdout();
    for line in stdin.lock().lines() {
        let Ok(line) = line else { break };
        let (ans, orc) = answer_line(&line);
        let mut o = stdout.lock();
        let _ = writeln!(o, "{}\t{}", ans, orc.unwrap_or_default().replace(['\t', '\n'], " "));
        let _ = o.flush();
    }
    0
}

struct Kid {
    child: Child,
    stdin: ChildStdin,
    rx: Receiver<Option<String>>,
}

fn spawn_kid() -> Kid {
    let exe = std::env::current_exe().expect("current_exe");
    let mut child = Command::new(exe)
        .args(["lex", "worker"])
        .stdin(Stdio::piped())
        .stdout(Stdio::piped())
        .stderr(Stdio::null())
        .spawn()
        .expect("spawn worker");
    let stdin = child.stdin.take().unwrap();
    let stdout = child.stdout.take().unwrap();
    let (tx, rx) = mpsc::channel();
    std::thread::spawn(move || {
        let mut r = BufReader::new(stdout);
        loop {
            let mut s = String::new();
            match r.read_line(&mut s) {
                Ok(0) | Err(_) => {
                    let _ = tx.send(None);
                    break;
                }
                Ok(_) => {
                    if tx.send(Some(s.trim_end_matches('\n').to_string())).is_err() {
                        break;
                    }
                }
            }
        }
    });
    Kid { child, stdin, rx }
}

const CASE_TIMEOUT: Duration = Duration::from_secs(20);

fn run(args: &[String]) -> i32 {
    util::silence_panics();
    let inproc = util::flag(args, "--inproc");
    let lines = util::stdin_lines();
    let mut out = Out::new();
    let mut fails = 0u64;
    let mut deaths = 0u64;
    let mut kid: Option<Kid> = None;
    for (lineno, line) in lines.iter().enumerate() {
        let (ans, orc): (String, Option<String>) = if inproc {
            answer_line(line)
        } else {
            let k = kid.get_or_insert_with(spawn_kid);
            let sent = k.stdin.write_all(line.as_bytes()).and_then(|()| k.stdin.write_all(b"\n")).and_then(|()| k.stdin.flush());
            let got = if sent.is_ok() { k.rx.recv_timeout(CASE_TIMEOUT) } else { Ok(None) };
            match got {
                Ok(Some(resp)) => {
                    let (a, o) = resp.split_once('\t').unwrap_or((resp.as_str(), ""));
                    (a.to_string(), if o.is_empty() { None } else { Some(o.to_string()) })
                }
                Ok(None) => {
                    // the child died while answering this case
                    deaths += 1;
                    let mut k = kid.take().unwrap();
                    let status = k.child.wait().ok();
                    eprintln!("ABORT {} worker died: {:?}", lineno + 1, status);
                    (
                        "toks=? diags=? labels=? caps=? end=abort".to_string(),
                        Some(format!("lexer aborted the process ({})", status.map_or("?".to_string(), |s| s.to_string()))),
                    )
                }
                Err(_) => {
                    deaths += 1;
                    let mut k = kid.take().unwrap();
                    let _ = k.child.kill();
                    let _ = k.child.wait();
                    ("toks=? diags=? labels=? caps=? end=timeout".to_string(), Some("lexer did not return within 20 s".to_string()))
                }
            }
        };
        out.line(&ans);
        if let Some(msg) = orc {
            fails += 1;
            eprintln!("ORACLE-FAIL {} {}", lineno + 1, msg);
        }
    }
    if let Some(mut k) = kid.take() {
        drop(k.stdin);
        let _ = k.child.wait();
    }
    eprintln!("ORACLE-SUMMARY fails={fails} worker_deaths={deaths} lines={}", lines.len());
    0
}

// ------------------------------------------------------------------------------------------------
// generators
// ------------------------------------------------------------------------------------------------

const KEYWORDS: &[&str] = &[
    "make", "get", "add", "minus", "times", "divide", "mod", "and", "or", "not", "jasi", "start", "end", "comot",
    "next", "na", "pass", "true", "false", "null", "do", "return",
];
const MULTI: &[&str] = &[
    "if to say", "if not so", "small pass", "if  to\tsay", "if\nto\nsay", "if\r\nnot\r\nso", "small\tpass", "if to",
    "if not", "if", "small", "if to not so", "if to say2", "small pass_x", "small pass9", "if to sayx", "if tosay",
    "ifto say", "if to\x0csay", "if # c\n to say", "small # c\n pass", "if not\nso1", "if to to say", "if to not",
];
const IDENTS: &[&str] = &[
    "x", "foo", "_a1", "to", "say", "so", "i", "n", "shout", "len", "makeup", "getx", "_", "__", "a_b_c", "Z9",
    "passe", "iffy", "smallest", "If", "TO", "nulls", "t", "notso",
];
const NUMBERS: &[&str] =
    &["0", "1", "42", "3.14", "0.5", "007", "1.", "1..2", "1.a", "12abc", "1_000", "1.5.2", "1.5e3", "9.", "10.0", "1.x1.y"];
const STRINGS: &[&str] = &[
    "\"abc\"", "'abc'", "\"\"", "''", "\"a\\nb\"", "\"\\\"\"", "'\\''", "\"\\\\\"", "\"\\t\"", "\"a\\xb\"", "\"a\\éb\"",
    "\"a\\€b\"", "\"\\😆\"", "\"abc", "'abc", "\"abc\\", "\"ab\\n", "\"ab\ncd\"", "\"ab\rcd\"", "\"a\\nb\ncd\"", "\"héllo €\"",
    "\"{x}\"", "\"it's\"", "'say \"hi\"'", "\"\\'\"", "'\\\"'", "\"a\\\nb\"", "\"a\\ b\"", "\"😆\"", "\"\\n\\t\\\\\"", "\"a\\",
    "\"\\€", "'\\é'", "\"x\\ty\\qz\"", "\"tab\there\"", "\"#not comment\"",
];
const PUNCT: &[&str] = &["(", ")", "[", "]", ",", "."];
const MULTIBYTE: &[&str] = &["é", "€", "😆", "\u{a0}", "\u{2028}", "\u{85}", "\u{3000}", "ß", "\u{7ff}", "\u{800}", "\u{ffff}", "\u{10ffff}"];
const ODD_ASCII: &[&str] = &[
    "@", "$", "!", ";", "{", "}", "`", "~", "\\", "^", "&", "*", "-", "+", "=", "<", ">", "/", ":", "?", "|", "%", "\0",
    "\x7f", "\x0b", "\x1f", "\"", "'",
];
const COMMENTS: &[&str] = &["#", "# foo", "#é€😆", "# a\n", "# a\r", "# a\r\n", "#\n", "##\n#\n", "# \"str\" 1. \\\n"];
const SPACES: &[&str] = &[" ", "\t", "\n", "\r", "\r\n", "\x0c", "  ", " \t\n", "\n\n"];

fn req(out: &mut Out, text: &str) {
    out.line(&format!("lex {}", util::hex(text.as_bytes())));
}

fn generate(args: &[String]) -> i32 {
    let seed = util::opt_u64(args, "--seed", 1);
    let n = util::opt_u64(args, "--n", 1000);
    let kind = util::opt(args, "--kind").unwrap_or("grammar");
    let repo = util::opt(args, "--repo").map(str::to_string).or_else(|| std::env::var("NV_REPO").ok()).unwrap_or_else(|| "/repo".to_string());
    let mut out = Out::new();
    match kind {
        "grammar" => {
            gen_grammar(seed, n, &mut out);
            // the string-buffer cases ride along with the grammar stream (C07 runs that stream)
            gen_strings(seed, n / 4, &mut out);
        }
        "strings" => gen_strings(seed, n, &mut out),
        "trunc" => gen_trunc(seed, n, &repo, &mut out),
        "relayout" => gen_relayout(seed, n, &repo, &mut out),
        "deep" => gen_deep(n, &mut out),
        _ => {
            eprintln!("unknown --kind {kind}");
            return 2;
        }
    }
    0
}

fn classes() -> Vec<&'static [&'static str]> {
    vec![KEYWORDS, MULTI, IDENTS, NUMBERS, STRINGS, PUNCT, MULTIBYTE, ODD_ASCII, COMMENTS, SPACES]
}

/// (i) texts from the grammar of lexer classes. First a deterministic part (every representative
/// alone, and every multi-byte character / quote / backslash / `#` / `.` / digit / line end glued
/// before, after and between every token representative), then `n` random concatenations.
fn gen_grammar(seed: u64, n: u64, out: &mut Out) {
    let mut rng = Rng::new(seed ^ 0x1E5);
    let all = classes();
    req(out, "");
    for cl in &all {
        for p in cl.iter() {
            req(out, p);
        }
    }
    let tokens: Vec<&str> =
        [KEYWORDS, &MULTI[..3], &IDENTS[..6], &NUMBERS[..8], &STRINGS[..18], PUNCT, &COMMENTS[..4]].concat();
    let glue: Vec<&str> = [MULTIBYTE, &["\"", "'", "\\", "#", ".", "7", "_", "a", "\n", "\r", "\r\n", "\t", "\x0c", "@"][..]].concat();
    for t in &tokens {
        for g in &glue {
            req(out, &format!("{t}{g}"));
            req(out, &format!("{g}{t}"));
            req(out, &format!("{t}{g}{t}"));
        }
    }
    for _ in 0..n {
        let cap = if rng.chance(1, 8) { 40 } else { 10 };
        let len = 1 + rng.below(cap);
        let policy = rng.below(4);
        let mut s = String::new();
        for i in 0..len {
            if i > 0 {
                match policy {
                    0 => {}
                    1 => s.push(' '),
                    2 => {
                        if rng.chance(1, 2) {
                            s.push_str(rng.pick(SPACES));
                        }
                    }
                    _ => {
                        if rng.chance(1, 3) {
                            s.push_str(rng.pick(SPACES));
                        } else if rng.chance(1, 6) {
                            s.push_str(rng.pick(COMMENTS));
                        }
                    }
                }
            }
            // weights: tokens common, odd stuff regularly
            let cl = match rng.below(20) {
                0..=2 => KEYWORDS,
                3..=4 => MULTI,
                5..=7 => IDENTS,
                8..=10 => NUMBERS,
                11..=13 => STRINGS,
                14..=15 => PUNCT,
                16 => MULTIBYTE,
                17 => ODD_ASCII,
                18 => COMMENTS,
                _ => SPACES,
            };
            s.push_str(rng.pick(cl));
        }
        req(out, &s);
    }
}

// ------------------------------------------------------------------------------------------------
// string literals: what `scan_string` reserves and how the buffer grows (`caps=`, Model/LexMem.lean)
// ------------------------------------------------------------------------------------------------

/// Hand-written texts: one per path of `scan_string` that touches the buffer.
const STRING_SEEDS: &[&str] = &[
    // escape at the start / in the middle / at the end; both quote characters
    "\"\\nabc\"", "\"abc\\ndef\"", "\"abc\\n\"", "'\\nabc'", "'abc\\ndef'", "'abc\\n'", "\"\\n\"", "'\\t'",
    // the hint is what is left up to the closing quote: escape directly before it
    "\"\\\\\"", "\"a\\\\\"", "'\\\\'", "\"abcdefgh\\t\"",
    // escaped quotes: the hint stops at the escaped quote and the buffer has to grow (8, 16, 32 …)
    "\"\\\"\"", "\"\\\"\\\"\"", "\"\\\"\\\"\\\"\\\"\"", "\"\\\"\\\"\\\"\\\"\\\"\\\"\\\"\\\"\\\"\"",
    "'\\'\\'\\'\\'\\'\\'\\'\\'\\'\\'\\'\\'\\'\\'\\'\\'\\''", "\"\\\"\\\"aaaaaaaaaaaaaaaaaaaa\\n\"", "\"\\\"\\\"aaaaaaaaaaaaaaaaaaaa\\nb\"",
    "\"x\\\"yyyyyyyyyyyyyyyyyyyyyyyyyyyyyyyyyyyyyyyy\\\"z\"", "'a\\'bbbbbbbbbbbbbbbbb\\'cccccccccccccccccccccccccccccccccc\\'d'",
    // the other quote character is no stop for the hint, and `\'` in a "…" string is an invalid escape
    "\"a\\nb'c'd\"", "'a\\nb\"c\"d'", "\"\\'\"", "'\\\"'", "\"it\\'s\"",
    // invalid escapes, also with 2-, 3- and 4-byte characters after the backslash
    "\"\\x\"", "\"a\\xb\"", "\"\\é\"", "\"a\\éb\"", "\"\\€\"", "\"ab\\€cd\"", "\"\\😆\"", "\"a\\😆\"", "\"\\é\\€\\😆\\q\"",
    "\"\\€", "\"\\😆", "'\\é",
    // backslash + line end: the escape swallows the line end, the hint does not
    "\"a\\\nb\"", "\"a\\\nbcdefghijklmnop\\n\"", "\"\\\n\\n\"", "\"a\\\rb\"", "\"a\\\r\nb\"", "\"a\\\r\nb\" \"c\\nd\"", "\"\\\n", "\"\\\r",
    "'\\\n\\\n\\\n\\\nabc'",
    // unterminated at a line end (LF, CR, CRLF) after an escape: content after the last escape is dropped
    "\"a\\nb\ncd\"", "\"a\\nb\rcd\"", "\"a\\nb\r\ncd\"", "\"\\tabcdefghijkl\n", "'x\\ny\n'z\\nw\n",
    // unterminated at the end of input: no quote/backslash left (cursor stays after the last escape) …
    "\"a\\nb", "\"\\n", "\"\\n abc def ghi", "\"\\nabc 'd\\ne' 'f\\ng'", "'\\n \"a\\nb\" \"c\\nd\" xyz",
    // … or a backslash as the last byte (cursor stays, the run before it IS pushed)
    "\"abc\\", "\"\\", "\"a\\nb\\", "\"a\\nbcdefghijklmnopqrstuvwxyz\\", "\"x 'y \\", "\"a\\nb 'c\\", "'a \"b \\",
    "\"\\\"\\\"aaaaaaaaaaaa\\nbbbbbbbbbbbbbbbbbbbbbbbbbbbbbb\\", "\"\\\"\\\"\\\"\\\"\\\"\\\"\\\"\\\"\\\"abcdefgh\\",
    // several strings on one line, with and without separators
    "\"a\\nb\" \"c\\td\" \"e\\\\f\"", "\"a\\nb\"\"c\\nd\"'e\\nf'", "shout(\"a\\nb\", 'c\\'d', \"e\")", "[\"\\n\",\"\\t\",\"\\\\\",\"\\\"\"]",
    "make s get \"line1\\nline2\" add 'it\\'s' add \"q\\\"q\"",
    // no escape at all: nothing is reserved
    "\"abc\" 'def' \"\" ''", "\"abc", "\"abc\ndef",
];

const PLAIN: &[&str] = &["a", "b", "z", " ", "0", "#", ".", "{x}", "é", "€", "😆", "ab", "hello", "\t", "(", ","];

/// One string literal (or a torso of one). Returns the text; `last` allows the end-of-input forms.
fn gen_string_literal(rng: &mut Rng, last: bool) -> String {
    let q = if rng.chance(1, 2) { '"' } else { '\'' };
    let other = if q == '"' { '\'' } else { '"' };
    let mut s = String::new();
    s.push(q);
    let pieces = match rng.below(8) {
        0 => 1,
        1..=4 => 1 + rng.below(4),
        5..=6 => 3 + rng.below(8),
        _ => 8 + rng.below(24),
    };
    // where escapes may go: 0 everywhere, 1 only at the start, 2 only at the end, 3 none
    let placement = rng.below(10);
    for i in 0..pieces {
        let esc_here = match placement {
            0..=5 => rng.chance(1, 2),
            6 => i == 0,
            7 => i + 1 == pieces,
            8 => i == 0 || i + 1 == pieces,
            _ => false,
        };
        if esc_here {
            match rng.below(24) {
                0..=3 => s.push_str("\\n"),
                4 => s.push_str("\\t"),
                5..=6 => s.push_str("\\\\"),
                7..=11 => {
                    // escaped own quote: the hint stops here; often a whole run of them
                    let more = if rng.chance(1, 3) { rng.below(12) } else { 0 };
                    for _ in 0..1 + more {
                        s.push('\\');
                        s.push(q);
                    }
                }
                12 => {
                    s.push('\\');
                    s.push(other);
                }
                13..=14 => {
                    s.push('\\');
                    s.push_str(rng.pick(&["x", "q", " ", "0", "N", "#", "(", "\0", "\x7f"]));
                }
                15..=17 => {
                    s.push('\\');
                    s.push_str(rng.pick(MULTIBYTE));
                }
                18..=19 => s.push_str("\\\n"),
                20 => s.push_str("\\\r"),
                21 => s.push_str("\\\r\n"),
                22 => s.push_str("\\\x0c"),
                _ => s.push_str("\\\t"),
            }
        } else {
            let run = match rng.below(10) {
                0 => 0,
                1..=6 => 1 + rng.below(4),
                7..=8 => 4 + rng.below(14),
                _ => 16 + rng.below(70),
            };
            for _ in 0..run {
                if rng.chance(1, 12) {
                    s.push(other);
                } else {
                    s.push_str(rng.pick(PLAIN));
                }
            }
        }
    }
    match rng.below(if last { 16 } else { 12 }) {
        0..=8 => s.push(q),
        9 => s.push('\n'),
        10 => s.push_str(rng.pick(&["\r", "\r\n"])),
        11 => {
            s.push(q);
            s.push(q); // an empty string glued on
        }
        12..=13 => s.push('\\'), // backslash as the last byte
        _ => {}                  // end of input
    }
    s
}

/// (v) string literals: `STRING_SEEDS`, every prefix of each of them (character boundaries), then `n`
/// random lines of 1–6 literals with assorted separators; the last literal may run into the end of input.
fn gen_strings(seed: u64, n: u64, out: &mut Out) {
    let mut rng = Rng::new(seed ^ 0x57B5);
    for t in STRING_SEEDS {
        req(out, t);
    }
    for t in STRING_SEEDS {
        for cut in 1..t.len() {
            if t.is_char_boundary(cut) {
                req(out, &t[..cut]);
            }
        }
    }
    // growth ladder: k escaped quotes, then a run of m bytes, then one more escape (2m+… capacities)
    for k in [0usize, 1, 2, 3, 4, 7, 8, 9, 15, 16, 17, 33] {
        for m in [0usize, 1, 5, 6, 7, 8, 9, 17, 40] {
            for tail in ["\\n\"", "\\n", "\\", "\"", "\\nz\"", "\n"] {
                req(out, &format!("\"{}{}{}", "\\\"".repeat(k), "a".repeat(m), tail));
                req(out, &format!("'x\\n{}{}{}", "\\'".repeat(k), "é".repeat(m), tail.replace('"', "'")));
            }
        }
    }
    for _ in 0..n {
        let many = rng.chance(1, 6);
        let count = 1 + rng.below(if many { 12 } else { 4 });
        let mut s = String::new();
        if rng.chance(1, 5) {
            s.push_str(rng.pick(&["shout(", "make s get ", "x add ", "[", "  ", "# c\n", "return "]));
        }
        for i in 0..count {
            let last = i + 1 == count;
            s.push_str(&gen_string_literal(&mut rng, last));
            if !last {
                s.push_str(rng.pick(&[" ", " ", "", ", ", " add ", "\n", "\r\n", " # c\n", ")", "\t", " x "]));
            }
        }
        if rng.chance(1, 4) {
            s.push_str(rng.pick(&[")", "\n", " ", " end", "\r\n"]));
        }
        req(out, &s);
    }
}

fn program_files(repo: &str) -> Vec<(String, String)> {
    let mut v = Vec::new();
    for dir in ["examples", "tests/stress"] {
        let p = std::path::Path::new(repo).join(dir);
        let Ok(rd) = std::fs::read_dir(&p) else { continue };
        let mut names: Vec<_> = rd.filter_map(Result::ok).map(|e| e.path()).filter(|p| p.extension().is_some_and(|e| e == "ns")).collect();
        names.sort();
        for f in names {
            if let Ok(s) = std::fs::read_to_string(&f) {
                v.push((f.display().to_string(), s));
            }
        }
    }
    v
}

/// (ii) truncations of the shipped programs on character boundaries: prefixes `text[..cut]` and
/// suffixes `text[cut..]`. `n = 0`: every cut of every file; otherwise `n` cuts drawn at random
/// (plus the whole files).
fn gen_trunc(seed: u64, n: u64, repo: &str, out: &mut Out) {
    let mut rng = Rng::new(seed ^ 0x7C);
    let files = program_files(repo);
    if files.is_empty() {
        eprintln!("no programs under {repo}/examples or {repo}/tests/stress");
        return;
    }
    for (_, s) in &files {
        req(out, s);
    }
    if n == 0 {
        for (_, s) in &files {
            for cut in 0..=s.len() {
                if s.is_char_boundary(cut) {
                    req(out, &s[..cut]);
                }
            }
        }
        return;
    }
    for _ in 0..n {
        let (_, s) = rng.pick(&files);
        let mut cut = rng.below(s.len() as u64 + 1) as usize;
        while !s.is_char_boundary(cut) {
            cut -= 1;
        }
        if rng.chance(3, 4) {
            // keep prefixes short enough that the stream stays cheap: a window ending at the cut
            let mut from = cut.saturating_sub(rng.below(400) as usize);
            while !s.is_char_boundary(from) {
                from -= 1;
            }
            if rng.chance(1, 2) {
                from = 0;
            }
            req(out, &s[from..cut]);
        } else {
            let mut to = (cut + rng.below(400) as usize).min(s.len());
            while !s.is_char_boundary(to) {
                to -= 1;
            }
            req(out, &s[cut..to]);
        }
    }
}

/// The lexemes (source slices) of the real tokens of `src`, or None if the lexer reports anything.
fn lexemes(src: &str) -> Option<Vec<(String, String)>> {
    let arena = Arena::new(pipeline::ARENA_CAP).unwrap();
    let mut lexer = Lexer::new(src, &arena);
    let toks = drive(&mut lexer);
    if !lexer.errors.diagnostics.is_empty() {
        return None;
    }
    Some(
        toks.iter()
            .filter(|t| t.token != Token::EOF)
            .map(|t| (kind_name(&t.token).to_string(), src[t.span.start..t.span.end].to_string()))
            .collect(),
    )
}

fn is_word_byte(b: u8) -> bool {
    b.is_ascii_alphanumeric() || b == b'_'
}

/// Would `a` directly followed by `b` lex differently from `a`, separator, `b`?
fn needs_sep(a: &(String, String), b: &(String, String)) -> bool {
    let (ka, ta) = (a.0.as_str(), a.1.as_str());
    let first = b.1.as_bytes()[0];
    let wordlike = !matches!(ka, "str" | "num" | "lparen" | "rparen" | "lbracket" | "rbracket" | "comma" | "dot");
    if wordlike {
        return is_word_byte(first);
    }
    if ka == "num" {
        return is_word_byte(first) || (first == b'.' && !ta.contains('.'));
    }
    false
}

fn random_ws(rng: &mut Rng) -> String {
    let mut s = String::new();
    for _ in 0..1 + rng.below(3) {
        s.push_str(rng.pick(&[" ", "\t", "\n", "\r", "\r\n", "\x0c", "  "]));
    }
    s
}

fn random_sep(rng: &mut Rng, allow_empty: bool) -> String {
    match rng.below(6) {
        0 if allow_empty => String::new(),
        0 | 1 => " ".to_string(),
        2 | 3 => random_ws(rng),
        4 => format!("{}#{}{}", if rng.chance(1, 2) { " " } else { "" }, rng.pick(&["", " c", " é€", " \"x\" 1. if to say"]), rng.pick(&["\n", "\r", "\r\n"])),
        _ => format!("# one{}# two{}{}", rng.pick(&["\n", "\r"]), rng.pick(&["\n", "\r\n"]), random_ws(rng)),
    }
}

/// inner whitespace of a multi-word keyword re-drawn (only whitespace is allowed there)
fn relayout_multi(rng: &mut Rng, kind: &str, text: &str, style: u64) -> String {
    if !matches!(kind, "iftosay" | "ifnotso" | "smallpass") {
        return text.to_string();
    }
    let words: Vec<&str> = text.split(|c: char| c.is_ascii_whitespace()).filter(|w| !w.is_empty()).collect();
    let mut s = String::new();
    for (i, w) in words.iter().enumerate() {
        if i > 0 {
            match style {
                0 => s.push(' '),
                1 => s.push('\n'),
                4 => s.push_str("\r\n"),
                5 => s.push('\r'),
                _ => s.push_str(&random_ws(rng)),
            }
        }
        s.push_str(w);
    }
    s
}

fn synth_tokens(rng: &mut Rng) -> Vec<(String, String)> {
    let len = 1 + rng.below(14);
    let mut v = Vec::new();
    for _ in 0..len {
        let (k, t): (&str, String) = match rng.below(12) {
            0..=2 => {
                let w = *rng.pick(KEYWORDS);
                (if w == "true" || w == "false" || w == "null" || w == "return" { w } else { w }, w.to_string())
            }
            3 => (*rng.pick(&["iftosay", "ifnotso", "smallpass"]), String::new()),
            4..=5 => ("ident", rng.pick(&IDENTS[..16]).to_string()),
            6..=7 => ("num", rng.pick(&["0", "1", "42", "3.14", "0.5", "007", "10.0"]).to_string()),
            8..=9 => (
                "str",
                rng.pick(&[
                    "\"abc\"", "'abc'", "\"\"", "''", "\"a\\nb\"", "\"\\\"\"", "'\\''", "\"\\\\\"", "\"héllo €\"", "\"{x}\"",
                    "\"it's\"", "'say \"hi\"'", "\"😆\"", "\"# no\"", "\"tab\there\"", "\"\\t\\n\"",
                    // buffers that grow past the reservation, escapes at either end, both quote kinds
                    "\"\\\"\\\"\\\"\\\"\\\"x\"", "'\\'\\'\\'\\'\\'\\'\\'\\'\\''", "\"\\\"\\\"aaaaaaaaaaaaaaaaaaaaaaaa\\n\"",
                    "\"abcdefghijklmnop\\n\"", "\"\\nabcdefghijklmnop\"", "'a\\nb \"c\" d'", "\"x\\\\\"", "'€\\t😆\\'é'",
                ])
                .to_string(),
            ),
            _ => {
                let p = *rng.pick(PUNCT);
                (
                    match p {
                        "(" => "lparen",
                        ")" => "rparen",
                        "[" => "lbracket",
                        "]" => "rbracket",
                        "," => "comma",
                        _ => "dot",
                    },
                    p.to_string(),
                )
            }
        };
        let t = match k {
            "iftosay" => "if to say".to_string(),
            "ifnotso" => "if not so".to_string(),
            "smallpass" => "small pass".to_string(),
            _ => t,
        };
        v.push((k.to_string(), t));
    }
    v
}

/// (iii) re-layouts: a token sequence (from a shipped program, a window of one, or synthesised) is
/// rendered canonically (one space) and in six layouts; every request carries the canonical text so
/// that the oracle can compare kinds and payloads.
fn gen_relayout(seed: u64, n: u64, repo: &str, out: &mut Out) {
    let mut rng = Rng::new(seed ^ 0xC10);
    let files: Vec<Vec<(String, String)>> = program_files(repo).iter().filter_map(|(_, s)| lexemes(s)).filter(|v| !v.is_empty()).collect();
    let mut count = 0u64;
    let emit_all = |rng: &mut Rng, toks: &[(String, String)], out: &mut Out| {
        // drop sequences that are not stable under the canonical layout itself (e.g. idents `if to`)
        let canon: String = toks.iter().map(|t| relayout_multi(rng, &t.0, &t.1, 0)).collect::<Vec<_>>().join(" ");
        match lexemes(&canon) {
            Some(l) if l.len() == toks.len() && l.iter().zip(toks).all(|(a, b)| a.0 == b.0) => {}
            _ => return,
        }
        for style in 0..7u64 {
            let mut s = String::new();
            if style == 6 && rng.chance(1, 2) {
                s.push_str(&random_sep(rng, true));
            }
            for (i, t) in toks.iter().enumerate() {
                s.push_str(&relayout_multi(rng, &t.0, &t.1, style));
                let last = i + 1 == toks.len();
                let must = !last && needs_sep(t, &toks[i + 1]);
                // `if` / `small` as identifiers look ahead over whitespace: keep them away from `to`, `not`, `pass`
                let hazard = t.0 == "ident" && (t.1 == "if" || t.1 == "small");
                let sep = match style {
                    0 => " ".to_string(),
                    1 => "\n".to_string(),
                    2 => if must || hazard { " ".to_string() } else { String::new() },
                    3 => format!(" # c{}\n", i),
                    4 => "\r\n".to_string(),
                    5 => "\r".to_string(),
                    _ => {
                        if last && rng.chance(1, 3) {
                            "# trailing comment without line end".to_string()
                        } else {
                            random_sep(rng, !(must || hazard))
                        }
                    }
                };
                s.push_str(&sep);
            }
            out.line(&format!("relay {} {}", util::hex(canon.as_bytes()), util::hex(s.as_bytes())));
        }
    };
    while count < n {
        count += 1;
        let toks: Vec<(String, String)> = if !files.is_empty() && rng.chance(1, 2) {
            let f = rng.pick(&files);
            let a = rng.below(f.len() as u64) as usize;
            let l = 1 + rng.below(30) as usize;
            f[a..(a + l).min(f.len())].to_vec()
        } else {
            synth_tokens(&mut rng)
        };
        emit_all(&mut rng, &toks, out);
    }
}

/// Inputs that make a recursive lexer deep: `1.a` repeated (`--n` times), and friends.
fn gen_deep(n: u64, out: &mut Out) {
    let n = n as usize;
    req(out, &"1.a".repeat(n));
    req(out, &"1. ".repeat(n));
    req(out, &"1..".repeat(n));
    req(out, &"@".repeat(n));
    req(out, &"é".repeat(n));
    req(out, &"#\n".repeat(n));
    // the model's string buffer is a list that is appended to: keep these two shorter
    req(out, &format!("\"{}\"", "\\n".repeat(n / 20)));
    req(out, &format!("\"{}\"", "\\€".repeat(n / 20)));
}
