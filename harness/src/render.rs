//! Family `render` — stub (replaced by the unit that owns this family).

pub fn main(_args: &[String]) -> i32 {
    eprintln!("family render: not built yet");
    2
}

/// Constants/tables of the compiled crate this family wants in `nvh dump-tables`.
pub fn dump_tables(_out: &mut Vec<(String, String)>) {}
