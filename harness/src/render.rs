//! Family `render` (C07, renderer part): the real `Diagnostics::render_ansi` on arbitrary source texts
//! with arbitrary diagnostics, built through the crate's public API (`Diagnostics::new`, `emit`, `Label`).
//!
//! Protocol (one request per line, one answer per line):
//! ```text
//! render <hex src> <hex filename> <diags>  -> out=<hex of render_ansi(src, filename)> | out=panic | bad-utf8
//! linecol <hex src> <start>                -> line=<l> col=<c> | panic | bad-utf8
//! ```
//! `<diags>` = `-` (none) or diagnostics joined by `;`, each `<sev>:<lo>:<hi>:<labels>` with `<sev>` in
//! `error|warning|note` and `<labels>` = `-` or `lo:hi` pairs joined by `,`. Code and message are fixed per
//! severity (`CODE_MSG`), the message of label number `i` of a diagnostic is `LABEL_MSGS[i % 4]` (one is empty,
//! two contain multi-byte characters). `linecol` renders ONE zero-width error diagnostic at `start` and
//! answers with the `line:col` of its location line (`line_col_from_span` itself is private).
//!
//! Every case runs under `util::catch`: a slicing panic (debug and release builds panic alike) is the
//! answer `out=panic`.
//!
//! Implementation-level oracle (needs no model), for requests whose spans are all *safe*
//! (`lo <= hi <= len`, both ends on `is_char_boundary` — what the front-end theorems deliver):
//! `render_ansi` must return; the output has one location line per diagnostic and its `line:col`
//! equals an independent computation (`indep_line_col`: walk the characters before `start`, count line
//! terminators with CRLF as one, tabs to the next multiple of 4). `ORACLE-FAIL <line> <what>` on stderr.
//!
//! `nvh render gen --seed S --n N --kind synth|edge|real|malformed|exhaustive|linecol [--atoms K] [--repo DIR]`
//! `nvh render run`
//! `nvh render memprobe --diags D [--cap MiB]`   arena consumption of one `render_ansi` call (see `memprobe`)

use std::process::Command;

use naijascript::arena::{Arena, ArenaCow};
use naijascript::diagnostics::{Diagnostics, Label, Severity};

use crate::pipeline;
use crate::util::{self, Out, Rng};

/// The CLI's arena capacity (`SCRATCH_ARENA_CAPACITY` in `src/bin/naija/main.rs`, 64-bit).
const ARENA_CAP: usize = 256 << 20;

const CODE_MSG: [(&str, &str); 3] = [
    ("syntax", "Missing identifier"),
    ("semantic", "Unused variable"),
    ("analysis", "Analysis skipped after reaching a configured resource limit"),
];
const LABEL_MSGS: [&str; 4] =
    ["I dey expect statement", "dis one — na déjà vu €", "", "`x` na reserved keyword 😀"];

const ATOMS: [&str; 9] = ["a", " ", "\t", "\n", "\r", "\r\n", "é", "€", "😀"];
const FILES: [&str; 6] = ["f.ns", "", "dir/é€.ns", "a:b:3.ns", "x y.ns", "<stdin>"];

pub fn main(args: &[String]) -> i32 {
    match args.first().map(String::as_str) {
        Some("gen") => generate(&args[1..]),
        Some("run") => run(),
        Some("memprobe") => memprobe(&args[1..]),
        _ => {
            eprintln!(
                "usage: nvh render gen --seed S --n N --kind synth|edge|real|malformed|exhaustive|linecol [--atoms K] [--repo DIR] | nvh render run | nvh render memprobe --diags D [--cap MiB]"
            );
            2
        }
    }
}

// ------------------------------------------------------------------------------------------------
// tables: what the compiled crate does (probed through `render_ansi`), for Gen/Render.lean
// ------------------------------------------------------------------------------------------------

/// Probes of the compiled renderer: the column reported after one tab (= TAB_WIDTH + 1), the bytes
/// that precede `error[` / `warning[` / `note[` in a header (= BOLD ++ color) and the last four bytes of a
/// header (= RESET).
pub fn dump_tables(out: &mut Vec<(String, String)>) {
    let probe = |sev: &str, src: &str, lo: usize| -> Vec<u8> {
        let d = vec![RD { sev: sev_of(sev).unwrap(), lo, hi: lo, labels: vec![] }];
        render_real(src, "f", &d).unwrap_or_default()
    };
    let o = probe("error", "\tx", 1);
    if let Some((_, c)) = location_line_cols(&o).first().copied() {
        out.push(("render_probe_col_after_tab".into(), c.to_string()));
    }
    let o = probe("error", "a\tx", 2);
    if let Some((_, c)) = location_line_cols(&o).first().copied() {
        out.push(("render_probe_col_after_a_tab".into(), c.to_string()));
    }
    for sev in ["error", "warning", "note"] {
        let o = probe(sev, "x", 0);
        let needle = format!("{sev}[");
        if let Some(p) = find(&o, needle.as_bytes()) {
            out.push((format!("render_probe_prefix_{sev}"), format!("{:?}", &o[..p])));
        }
        if let Some(e) = o.iter().position(|&b| b == b'\n') {
            if e >= 4 {
                out.push((format!("render_probe_header_tail_{sev}"), format!("{:?}", &o[e - 4..e])));
            }
        }
    }
}

fn find(hay: &[u8], needle: &[u8]) -> Option<usize> {
    hay.windows(needle.len()).position(|w| w == needle)
}

// ------------------------------------------------------------------------------------------------
// requests
// ------------------------------------------------------------------------------------------------

#[derive(Clone, Debug)]
struct RD {
    sev: Severity,
    lo: usize,
    hi: usize,
    labels: Vec<(usize, usize)>,
}

fn sev_of(s: &str) -> Option<Severity> {
    match s {
        "error" => Some(Severity::Error),
        "warning" => Some(Severity::Warning),
        "note" => Some(Severity::Note),
        _ => None,
    }
}

fn sev_idx(s: Severity) -> usize {
    match s {
        Severity::Error => 0,
        Severity::Warning => 1,
        Severity::Note => 2,
    }
}

fn diags_text(ds: &[RD]) -> String {
    if ds.is_empty() {
        return "-".into();
    }
    ds.iter()
        .map(|d| {
            let l = if d.labels.is_empty() {
                "-".to_string()
            } else {
                d.labels.iter().map(|(a, b)| format!("{a}:{b}")).collect::<Vec<_>>().join(",")
            };
            format!("{}:{}:{}:{}", pipeline::sev_name(d.sev), d.lo, d.hi, l)
        })
        .collect::<Vec<_>>()
        .join(";")
}

fn parse_diags(s: &str) -> Option<Vec<RD>> {
    if s == "-" {
        return Some(vec![]);
    }
    s.split(';')
        .map(|d| {
            let mut it = d.splitn(4, ':');
            let sev = sev_of(it.next()?)?;
            let lo = it.next()?.parse().ok()?;
            let hi = it.next()?.parse().ok()?;
            let l = it.next()?;
            let labels = if l == "-" {
                vec![]
            } else {
                l.split(',')
                    .map(|p| {
                        let (a, b) = p.split_once(':')?;
                        Some((a.parse().ok()?, b.parse().ok()?))
                    })
                    .collect::<Option<Vec<(usize, usize)>>>()?
            };
            Some(RD { sev, lo, hi, labels })
        })
        .collect()
}

fn request(src: &str, file: &str, ds: &[RD]) -> String {
    format!("render {} {} {}", util::hex(src.as_bytes()), util::hex(file.as_bytes()), diags_text(ds))
}

// ------------------------------------------------------------------------------------------------
// the real renderer
// ------------------------------------------------------------------------------------------------

/// `render_ansi(src, file)` of the given diagnostics, built with the public API. `Err` = it panicked.
fn render_real(src: &str, file: &str, ds: &[RD]) -> Result<Vec<u8>, String> {
    util::catch(|| {
        let arena = Arena::new(ARENA_CAP).unwrap();
        let mut diags = Diagnostics::new(&arena);
        for d in ds {
            let labels: Vec<Label<'_>> = d
                .labels
                .iter()
                .enumerate()
                .map(|(i, (a, b))| Label { message: ArenaCow::Borrowed(LABEL_MSGS[i % 4]), span: (*a..*b).into() })
                .collect();
            let (code, msg) = CODE_MSG[sev_idx(d.sev)];
            diags.emit((d.lo..d.hi).into(), d.sev, code, msg, labels);
        }
        let out = diags.render_ansi(src, file);
        out.as_bytes().to_vec()
    })
}

fn safe(src: &str, lo: usize, hi: usize) -> bool {
    lo <= hi && hi <= src.len() && src.is_char_boundary(lo) && src.is_char_boundary(hi)
}

fn all_safe(src: &str, ds: &[RD]) -> bool {
    ds.iter().all(|d| safe(src, d.lo, d.hi) && d.labels.iter().all(|(a, b)| safe(src, *a, *b)))
}

/// Independent of `diagnostics.rs`: 1-based line and visual column of byte offset `start`.
/// Lines end at `"\r\n"` (one terminator), `'\n'` or a lone `'\r'`; a tab advances to the next multiple
/// of 4; every other character (the `'\r'` of an unfinished `"\r\n"` included) is one column wide.
fn indep_line_col(src: &str, start: usize) -> (usize, usize) {
    let mut line = 1usize;
    let mut col = 0usize;
    let mut it = src.char_indices().peekable();
    while let Some((i, c)) = it.next() {
        if i >= start {
            break;
        }
        match c {
            '\n' => {
                line += 1;
                col = 0;
            }
            '\r' => {
                if matches!(it.peek(), Some((_, '\n'))) {
                    col += 1;
                } else {
                    line += 1;
                    col = 0;
                }
            }
            '\t' => col += 4 - col % 4,
            _ => col += 1,
        }
    }
    (line, col + 1)
}

/// `(line, col)` of every location line (` <BOLD><color>--><RESET> <file>:<line>:<col>`) of a rendering.
/// No other line of the output starts with a space followed by ESC: headers, gutters, caret and label
/// lines start with ESC, source text always follows a gutter. (Only the shape is used, not the
/// particular escape codes.)
fn location_line_cols(out: &[u8]) -> Vec<(usize, usize)> {
    let mut v = Vec::new();
    for l in out.split(|&b| b == b'\n') {
        if !l.starts_with(b" \x1b[") {
            continue;
        }
        let Some(at) = find(l, b"-->") else { continue };
        let mut rest = &l[at + 3..];
        if rest.starts_with(b"\x1b[") {
            match rest.iter().position(|&b| b == b'm') {
                Some(m) => rest = &rest[m + 1..],
                None => continue,
            }
        }
        let s = String::from_utf8_lossy(rest);
        let mut it = s.rsplitn(3, ':');
        let col = it.next().and_then(|x| x.parse().ok());
        let line = it.next().and_then(|x| x.parse().ok());
        if let (Some(line), Some(col)) = (line, col) {
            v.push((line, col));
        } else {
            v.push((0, 0));
        }
    }
    v
}

fn oracle(src: &str, ds: &[RD], res: &Result<Vec<u8>, String>) -> Option<String> {
    if !all_safe(src, ds) {
        return None;
    }
    match res {
        Err(msg) => Some(format!(
            "render_ansi panicked although every span is ordered, in range and on character boundaries: {}",
            msg.replace('\n', " ")
        )),
        Ok(out) => {
            if std::str::from_utf8(out).is_err() {
                return Some("render_ansi output is not valid UTF-8".into());
            }
            let got = location_line_cols(out);
            if got.len() != ds.len() {
                return Some(format!("{} location lines for {} diagnostics", got.len(), ds.len()));
            }
            for (i, (d, g)) in ds.iter().zip(got.iter()).enumerate() {
                let want = indep_line_col(src, d.lo);
                if *g != want {
                    return Some(format!(
                        "diagnostic {i} at byte {}: location line says {}:{}, independent computation {}:{}",
                        d.lo, g.0, g.1, want.0, want.1
                    ));
                }
            }
            None
        }
    }
}

fn answer_line(line: &str) -> (String, Option<String>) {
    let w: Vec<&str> = line.split_whitespace().collect();
    let text = |h: &str| util::unhex(h).and_then(|b| String::from_utf8(b).ok());
    match w.as_slice() {
        ["render", hs, hf, ds] => {
            let (Some(hsb), Some(hfb), Some(ds)) = (util::unhex(hs), util::unhex(hf), parse_diags(ds)) else {
                return ("bad-request".into(), None);
            };
            let (Ok(src), Ok(file)) = (String::from_utf8(hsb), String::from_utf8(hfb)) else {
                return ("bad-utf8".into(), None);
            };
            let res = render_real(&src, &file, &ds);
            let orc = oracle(&src, &ds, &res);
            match res {
                Ok(out) => (format!("out={}", util::hex(&out)), orc),
                Err(_) => ("out=panic".into(), orc),
            }
        }
        ["linecol", hs, st] => {
            let Some(hsb) = util::unhex(hs) else { return ("bad-request".into(), None) };
            let Ok(start) = st.parse::<usize>() else { return ("bad-request".into(), None) };
            let Some(src) = String::from_utf8(hsb).ok() else { return ("bad-utf8".into(), None) };
            let _ = text;
            let ds = vec![RD { sev: Severity::Error, lo: start, hi: start, labels: vec![] }];
            let res = render_real(&src, "f", &ds);
            let orc = oracle(&src, &ds, &res);
            match res {
                Ok(out) => match location_line_cols(&out).first() {
                    Some((l, c)) => (format!("line={l} col={c}"), orc),
                    None => ("no-location-line".into(), Some("no location line in the output".into())),
                },
                Err(_) => ("panic".into(), orc),
            }
        }
        _ => ("bad-op".into(), None),
    }
}

fn run() -> i32 {
    util::silence_panics();
    let lines = util::stdin_lines();
    let mut out = Out::new();
    let mut fails = 0u64;
    for (lineno, line) in lines.iter().enumerate() {
        let (ans, orc) = answer_line(line);
        out.line(&ans);
        if let Some(msg) = orc {
            fails += 1;
            eprintln!("ORACLE-FAIL {} {}", lineno + 1, msg);
        }
    }
    eprintln!("ORACLE-SUMMARY fails={fails} lines={}", lines.len());
    0
}

// ------------------------------------------------------------------------------------------------
// generators
// ------------------------------------------------------------------------------------------------

fn boundaries(src: &str) -> Vec<usize> {
    (0..=src.len()).filter(|&i| src.is_char_boundary(i)).collect()
}

fn rand_text(rng: &mut Rng, max_atoms: u64) -> String {
    let n = rng.below(max_atoms + 1);
    let mut s = String::new();
    // three flavours: anything; line-oriented (words and terminators); one long line
    let flavour = rng.below(6);
    for _ in 0..n {
        let a = match flavour {
            0 | 1 | 2 => *rng.pick(&ATOMS),
            3 | 4 => *rng.pick(&["a", "a", "b ", "\t", "é", "\n", "\r\n", "\r", "€", "😀", " "]),
            _ => *rng.pick(&["a", "\t", "é", "€", "😀", " ", "ab"]),
        };
        s.push_str(a);
    }
    s
}

/// A random safe span, biased towards the interesting places: zero width, a line terminator, the end of
/// the text, several lines.
fn rand_safe_span(rng: &mut Rng, src: &str, bs: &[usize]) -> (usize, usize) {
    let special: Vec<usize> = bs
        .iter()
        .copied()
        .filter(|&i| {
            let b = src.as_bytes();
            i == src.len() || b[i] == b'\n' || b[i] == b'\r' || (i > 0 && (b[i - 1] == b'\n' || b[i - 1] == b'\r'))
        })
        .collect();
    let lo = if rng.chance(1, 3) && !special.is_empty() { *rng.pick(&special) } else { *rng.pick(bs) };
    let after: Vec<usize> = bs.iter().copied().filter(|&i| i >= lo).collect();
    let hi = match rng.below(5) {
        0 => lo,
        1 => *after.last().unwrap(),
        2 => after[(after.len() - 1).min(1)],
        _ => *rng.pick(&after),
    };
    (lo, hi)
}

fn rand_sev(rng: &mut Rng) -> Severity {
    *rng.pick(&[Severity::Error, Severity::Error, Severity::Warning, Severity::Note])
}

fn gen_synth(rng: &mut Rng, n: u64, out: &mut Out) {
    for _ in 0..n {
        let max_atoms = if rng.chance(1, 10) { 60 } else { 14 };
        let src = rand_text(rng, max_atoms);
        let bs = boundaries(&src);
        let nd = match rng.below(8) {
            0 => 0,
            1..=4 => 1,
            5 | 6 => 2,
            _ => 3 + rng.below(3),
        };
        let mut ds = Vec::new();
        for _ in 0..nd {
            let (lo, hi) = rand_safe_span(rng, &src, &bs);
            let nl = match rng.below(6) {
                0..=2 => 0,
                3 => 1,
                4 => 2,
                _ => 3,
            };
            let mut labels = Vec::new();
            for _ in 0..nl {
                // same span / same line region / anywhere
                let l = match rng.below(4) {
                    0 => (lo, hi),
                    1 => (lo, lo),
                    _ => rand_safe_span(rng, &src, &bs),
                };
                labels.push(l);
            }
            ds.push(RD { sev: rand_sev(rng), lo, hi, labels });
        }
        out.line(&request(&src, rng.pick(&FILES), &ds));
    }
}

/// Hand-picked edge cases, every safe span (and every safe label position) of each.
fn gen_edge(out: &mut Out) {
    let texts = [
        "",
        "\n",
        "\r",
        "\r\n",
        "a\n",
        "a\r\n",
        "a\r",
        "a\nb",
        "a\r\nb",
        "a\rb",
        "\n\n",
        "\r\r",
        "\r\n\r\n",
        "\n\r",
        "\r\r\n",
        "é\n€\r\n😀\r",
        "\ta\tb",
        "a\tb\n\tc",
        "\t\t",
        "abc\tdé\t€\n",
        "make x get 1\nmake y get \"a\\€b\"\r\nshout(x)\n",
        "😀😀\r\n\t😀",
    ];
    for t in texts {
        let bs = boundaries(t);
        for &lo in &bs {
            for &hi in bs.iter().filter(|&&h| h >= lo) {
                out.line(&request(t, "f.ns", &[RD { sev: Severity::Error, lo, hi, labels: vec![] }]));
            }
        }
        // one diagnostic at every boundary with a label at every boundary (zero width and to the end)
        if bs.len() <= 16 {
            for &lo in &bs {
                for &l in &bs {
                    let end = *bs.last().unwrap();
                    out.line(&request(
                        t,
                        "f.ns",
                        &[RD { sev: Severity::Warning, lo, hi: lo, labels: vec![(l, l), (l, end)] }],
                    ));
                }
            }
        }
    }
    // a long line, many lines (gutter width 1 -> 2 -> 3 -> 4)
    let long: String = "x".repeat(3000) + "\té€😀" + &"y".repeat(3000);
    for (lo, hi) in [(0, 0), (2999, 3001), (3001, 3003), (3003, 3006), (3006, 3010), (6010, 6010), (0, 6010)] {
        out.line(&request(&long, "f.ns", &[RD { sev: Severity::Error, lo, hi, labels: vec![(lo, hi)] }]));
    }
    for nlines in [9usize, 10, 99, 100, 999, 1000, 1001] {
        let t = "a\n".repeat(nlines - 1) + "b";
        let last = t.len() - 1;
        out.line(&request(&t, "f.ns", &[RD { sev: Severity::Note, lo: last, hi: last + 1, labels: vec![(0, 1)] }]));
        out.line(&request(&t, "f.ns", &[RD { sev: Severity::Note, lo: 0, hi: 1, labels: vec![(last, last + 1)] }]));
    }
}

/// All texts of at most `k` atoms; for each, every safe span as the span of a single diagnostic, and one
/// diagnostic with a random label.
fn gen_exhaustive(rng: &mut Rng, k: u64, linecol_only: bool, out: &mut Out) {
    let mut texts: Vec<String> = vec![String::new()];
    let mut frontier: Vec<String> = vec![String::new()];
    for _ in 0..k {
        let mut next = Vec::new();
        for t in &frontier {
            for a in ATOMS {
                next.push(format!("{t}{a}"));
            }
        }
        texts.extend(next.iter().cloned());
        frontier = next;
    }
    texts.sort();
    texts.dedup(); // "\r" + "\n" = "\r\n"
    for t in &texts {
        let bs = boundaries(t);
        if linecol_only {
            for &p in &bs {
                out.line(&format!("linecol {} {}", util::hex(t.as_bytes()), p));
            }
            continue;
        }
        for &lo in &bs {
            for &hi in bs.iter().filter(|&&h| h >= lo) {
                out.line(&request(t, "f.ns", &[RD { sev: Severity::Error, lo, hi, labels: vec![] }]));
            }
        }
        let (lo, hi) = rand_safe_span(rng, t, &bs);
        let l = rand_safe_span(rng, t, &bs);
        out.line(&request(t, "f.ns", &[RD { sev: Severity::Warning, lo, hi, labels: vec![l] }]));
    }
}

/// Unsafe spans: inside characters, reversed, beyond the end. The model must answer `out=panic` exactly
/// when the real code panics.
fn gen_malformed(rng: &mut Rng, n: u64, out: &mut Out) {
    // the D-07b shape first: a span ending inside the euro sign of `"a\€b"`
    out.line(&request("\"a\\€b\"", "f.ns", &[RD { sev: Severity::Error, lo: 2, hi: 4, labels: vec![] }]));
    out.line(&request("\"a\\€b\"", "f.ns", &[RD { sev: Severity::Error, lo: 2, hi: 4, labels: vec![(2, 4)] }]));
    out.line(&request("1.é", "f.ns", &[RD { sev: Severity::Error, lo: 0, hi: 3, labels: vec![] }]));
    out.line(&request("ab", "f.ns", &[RD { sev: Severity::Error, lo: 2, hi: 1, labels: vec![] }]));
    out.line(&request("ab", "f.ns", &[RD { sev: Severity::Error, lo: 0, hi: 9, labels: vec![] }]));
    out.line(&request("ab", "f.ns", &[RD { sev: Severity::Error, lo: 3, hi: 3, labels: vec![] }]));
    for _ in 0..n {
        let src = rand_text(rng, 12);
        let len = src.len() as u64;
        let any = |rng: &mut Rng| -> usize {
            match rng.below(12) {
                0 => (len + 1 + rng.below(3)) as usize,
                1 => usize::MAX - rng.below(2) as usize,
                _ => rng.below(len + 1) as usize,
            }
        };
        let bs = boundaries(&src);
        let mut ds = Vec::new();
        let nd = 1 + rng.below(2);
        for _ in 0..nd {
            // mostly one bad end, the rest safe, so that each slice site is reached
            let (mut lo, mut hi) = rand_safe_span(rng, &src, &bs);
            match rng.below(5) {
                0 => lo = any(rng),
                1 => hi = any(rng),
                2 => {
                    lo = any(rng);
                    hi = any(rng);
                }
                3 => std::mem::swap(&mut lo, &mut hi),
                _ => {}
            }
            let mut labels = Vec::new();
            for _ in 0..rng.below(3) {
                let (mut a, mut b) = rand_safe_span(rng, &src, &bs);
                match rng.below(5) {
                    0 => a = any(rng),
                    1 => b = any(rng),
                    2 => {
                        a = any(rng);
                        b = any(rng);
                    }
                    3 => std::mem::swap(&mut a, &mut b),
                    _ => {}
                }
                labels.push((a, b));
            }
            ds.push(RD { sev: rand_sev(rng), lo, hi, labels });
        }
        out.line(&request(&src, rng.pick(&FILES), &ds));
    }
}

/// Source texts of another family's generator (`nvh <family> gen …`): the second word of every request
/// line is the hex source.
fn texts_of(family: &str, kind: &str, seed: u64, n: u64) -> Vec<String> {
    let exe = std::env::current_exe().expect("current_exe");
    let o = Command::new(exe)
        .args([family, "gen", "--kind", kind, "--seed", &seed.to_string(), "--n", &n.to_string()])
        .output();
    let Ok(o) = o else { return vec![] };
    String::from_utf8_lossy(&o.stdout)
        .lines()
        .filter_map(|l| l.split_whitespace().nth(1).and_then(util::unhex).and_then(|b| String::from_utf8(b).ok()))
        .collect()
}

/// The diagnostics the real front end (lexer + parser, then the resolver when the parser is silent —
/// what the CLI does) reports on `src`, as request data. The real `render_ansi` is run on the REAL
/// diagnostics (their own messages) right here; a panic is returned as `Err`.
fn front_end_diags(src: &str) -> Result<Vec<RD>, String> {
    util::catch(|| {
        let arena = Arena::new(ARENA_CAP).unwrap();
        pipeline::with_resolved(src, &arena, |_, perrs, resolver| {
            let d = match resolver {
                Some(r) => &r.errors,
                None => perrs,
            };
            let ds: Vec<RD> = d
                .diagnostics
                .iter()
                .map(|x| RD {
                    sev: x.severity,
                    lo: x.span.start,
                    hi: x.span.end,
                    labels: x.labels.iter().map(|l| (l.span.start, l.span.end)).collect(),
                })
                .collect();
            ds
        })
    })
}

fn mutate(rng: &mut Rng, text: &str) -> String {
    let mut cs: Vec<char> = text.chars().collect();
    let ins = ["@", "\"", "1.", "\\", "é", "€", "😀", "\t", "\r\n", "\r", "\n", "(", ")", "end", "start", "make", "'", "{", "#"];
    for _ in 0..1 + rng.below(4) {
        let at = rng.below(cs.len() as u64 + 1) as usize;
        match rng.below(3) {
            0 if !cs.is_empty() => {
                let at = at.min(cs.len() - 1);
                let k = (1 + rng.below(6) as usize).min(cs.len() - at);
                cs.drain(at..at + k);
            }
            1 if !cs.is_empty() => {
                let at = at.min(cs.len() - 1);
                let r: Vec<char> = rng.pick(&ins).chars().collect();
                cs.splice(at..at + 1, r);
            }
            _ => {
                let r: Vec<char> = rng.pick(&ins).chars().collect();
                cs.splice(at..at, r);
            }
        }
    }
    // sometimes convert the line ends
    let s: String = cs.into_iter().collect();
    match rng.below(6) {
        0 => s.replace('\n', "\r\n"),
        1 => s.replace('\n', "\r"),
        _ => s,
    }
}

fn shipped_texts(repo: &str) -> Vec<String> {
    let mut v = Vec::new();
    for dir in ["examples", "tests/stress", "tests/fixtures"] {
        if let Ok(rd) = std::fs::read_dir(format!("{repo}/{dir}")) {
            let mut ps: Vec<_> = rd.flatten().map(|e| e.path()).collect();
            ps.sort();
            for p in ps {
                if p.extension().is_some_and(|e| e == "ns") {
                    if let Ok(s) = std::fs::read_to_string(&p) {
                        v.push(s);
                    }
                }
            }
        }
    }
    // the string literals of the test files (r#"…"# and "…" of at least 12 bytes)
    if let Ok(rd) = std::fs::read_dir(format!("{repo}/tests")) {
        let mut ps: Vec<_> = rd.flatten().map(|e| e.path()).collect();
        ps.sort();
        for p in ps {
            if p.extension().is_some_and(|e| e == "rs") {
                if let Ok(s) = std::fs::read_to_string(&p) {
                    let mut rest = s.as_str();
                    while let Some(i) = rest.find("r#\"") {
                        let body = &rest[i + 3..];
                        if let Some(j) = body.find("\"#") {
                            v.push(body[..j].to_string());
                            rest = &body[j + 2..];
                        } else {
                            break;
                        }
                    }
                    for l in s.lines() {
                        if let (Some(a), Some(b)) = (l.find('"'), l.rfind('"')) {
                            if b > a + 12 && !l.contains("r#") {
                                v.push(l[a + 1..b].replace("\\n", "\n").replace("\\\"", "\"").replace("\\t", "\t"));
                            }
                        }
                    }
                }
            }
        }
    }
    v
}

/// (ii) the diagnostics of the real front end on generated and mutated shipped texts.
fn gen_real(rng: &mut Rng, seed: u64, n: u64, repo: &str, out: &mut Out) {
    let mut pool: Vec<String> = Vec::new();
    let per = (n / 2).max(20);
    pool.extend(texts_of("lex", "grammar", seed, per));
    pool.extend(texts_of("parse", "mix", seed, per));
    pool.extend(texts_of("parse", "mut", seed, per));
    pool.extend(texts_of("resolve", "viol", seed, per / 2));
    pool.extend(texts_of("resolve", "mixed", seed, per / 2));
    let shipped = shipped_texts(repo);
    let mut produced = 0u64;
    let mut tries = 0u64;
    let mut crashed = 0u64;
    while produced < n && tries < n * 30 {
        tries += 1;
        let src = if !shipped.is_empty() && (pool.is_empty() || rng.chance(1, 3)) {
            {
                let i = rng.below(shipped.len() as u64) as usize;
                mutate(rng, &shipped[i])
            }
        } else if !pool.is_empty() {
            let t = pool.swap_remove(rng.below(pool.len() as u64) as usize);
            if rng.chance(1, 4) { mutate(rng, &t) } else { t }
        } else {
            break;
        };
        if src.len() > 20_000 {
            continue;
        }
        match front_end_diags(&src) {
            Ok(mut ds) => {
                if ds.is_empty() {
                    continue;
                }
                // keep the request small: a window of at most 12 diagnostics
                if ds.len() > 12 {
                    let at = rng.below((ds.len() - 11) as u64) as usize;
                    ds = ds[at..at + 12].to_vec();
                }
                out.line(&request(&src, rng.pick(&FILES), &ds));
                produced += 1;
            }
            Err(_) => crashed += 1, // a front-end panic is the business of the lex/parse/resolve units
        }
    }
    eprintln!("render gen real: produced={produced} tries={tries} front_end_panics={crashed}");
}

fn generate(args: &[String]) -> i32 {
    util::silence_panics();
    let seed = util::opt_u64(args, "--seed", 1);
    let n = util::opt_u64(args, "--n", 1000);
    let kind = util::opt(args, "--kind").unwrap_or("synth");
    let atoms = util::opt_u64(args, "--atoms", 3);
    let repo =
        util::opt(args, "--repo").map(str::to_string).or_else(|| std::env::var("NV_REPO").ok()).unwrap_or_else(|| "/repo".to_string());
    let mut rng = Rng::new(seed ^ 0x7E4D);
    let mut out = Out::new();
    match kind {
        "synth" => gen_synth(&mut rng, n, &mut out),
        "edge" => gen_edge(&mut out),
        "exhaustive" => gen_exhaustive(&mut rng, atoms, false, &mut out),
        "linecol" => gen_exhaustive(&mut rng, atoms, true, &mut out),
        "malformed" => gen_malformed(&mut rng, n, &mut out),
        "real" => gen_real(&mut rng, seed, n, &repo, &mut out),
        _ => {
            eprintln!("unknown --kind {kind}");
            return 2;
        }
    }
    0
}

// ------------------------------------------------------------------------------------------------
// memory probe
// ------------------------------------------------------------------------------------------------

/// `D` lines `"@\n"` with one (lexical-error shaped) diagnostic on each — what the CLI renders for a file
/// of `D` stray characters — rendered by ONE `render_ansi` call on an arena of `--cap` MiB (default: the
/// CLI's 256). Prints `diags=<D> src=<bytes> out=<bytes> arena_used=<bytes committed by the call>`.
/// The process aborts (`memory allocation of … bytes failed`) when the arena is exhausted; the caller sees
/// the exit status.
fn memprobe(args: &[String]) -> i32 {
    let d = util::opt_u64(args, "--diags", 1000) as usize;
    let cap = util::opt_u64(args, "--cap", 256) as usize;
    let src = "@\n".repeat(d);
    let arena = Arena::new(cap << 20).unwrap();
    let mut diags = Diagnostics::new(&arena);
    for i in 0..d {
        diags.emit((2 * i..2 * i + 1).into(), Severity::Error, "lexical", "Unexpected character", Vec::new());
    }
    let before = naijascript::arena::verif_hooks::arena_commit(&arena);
    let out = diags.render_ansi(&src, "f.ns");
    let after = naijascript::arena::verif_hooks::arena_commit(&arena);
    println!("diags={d} src={} out={} arena_used={}", src.len(), out.len(), after - before);
    0
}
