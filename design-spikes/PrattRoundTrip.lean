/-! Design spike (not framework code): Pratt print/parse round trip for a cut-down grammar with a
    token (`minus`) that is both prefix and infix, left-associative binary operators from a table,
    and parentheses. -/
namespace SpikePratt

inductive Op | plus | minus | times deriving DecidableEq, Repr
def Op.lbp : Op → Nat | .plus => 10 | .minus => 10 | .times => 20
def Op.rbp (o : Op) : Nat := o.lbp + 1
def unaryBp : Nat := 30

inductive Tok | atom (n : Nat) | op (o : Op) | lp | rp deriving DecidableEq, Repr

inductive Expr | atom (n : Nat) | neg (e : Expr) | bin (o : Op) (l r : Expr) deriving DecidableEq, Repr

mutual
/-- `parse fuel minBp toks` : prefix then continuation -/
def parse : Nat → Nat → List Tok → Option (Expr × List Tok)
  | 0, _, _ => none
  | f+1, minBp, .atom n :: r => cont f minBp (.atom n) r
  | f+1, minBp, .op .minus :: r =>
      match parse f unaryBp r with
      | some (e, r') => cont f minBp (.neg e) r'
      | none => none
  | f+1, minBp, .lp :: r =>
      match parse f 0 r with
      | some (e, .rp :: r') => cont f minBp e r'
      | _ => none
  | _+1, _, _ => none
/-- the Pratt loop -/
def cont : Nat → Nat → Expr → List Tok → Option (Expr × List Tok)
  | 0, _, _, _ => none
  | f+1, minBp, lhs, .op o :: r =>
      if o.lbp < minBp then some (lhs, .op o :: r)
      else match parse f o.rbp r with
        | some (rhs, r') => cont f minBp (.bin o lhs rhs) r'
        | none => none
  | _+1, _, lhs, r => some (lhs, r)
end

def printAt (c : Nat) : Expr → List Tok
  | .atom n => [.atom n]
  | .neg e => .op .minus :: printAt unaryBp e
  | .bin o l r =>
      let body := printAt o.lbp l ++ .op o :: printAt o.rbp r
      if o.lbp < c then .lp :: (printAt o.lbp l ++ .op o :: printAt o.rbp r) ++ [.rp] else body

/-- `rest` does not start with an operator of binding power ≥ k -/
def StopsAt (k : Nat) : List Tok → Prop
  | .op o :: _ => o.lbp < k
  | _ => True

#eval parse 100 0 (printAt 0 (.bin .times (.bin .plus (.atom 1) (.neg (.atom 2))) (.bin .minus (.atom 3) (.atom 4))))
#eval printAt 0 (.bin .times (.bin .plus (.atom 1) (.neg (.atom 2))) (.bin .minus (.atom 3) (.atom 4)))


theorem mono : ∀ f,
    (∀ b t r, parse f b t = some r → parse (f+1) b t = some r) ∧
    (∀ b l t r, cont f b l t = some r → cont (f+1) b l t = some r) := by
  intro f
  induction f with
  | zero => constructor <;> intros <;> simp_all [parse, cont]
  | succ f ih =>
    obtain ⟨ihp, ihc⟩ := ih
    constructor
    · intro b t r h
      match t with
      | [] => simp [parse] at h
      | .atom n :: t' => simp only [parse] at h ⊢; exact ihc _ _ _ _ h
      | .op .minus :: t' =>
        simp only [parse] at h ⊢
        cases hp : parse f unaryBp t' with
        | none => simp [hp] at h
        | some q =>
          obtain ⟨e, r'⟩ := q
          simp only [hp] at h
          simp only [ihp _ _ _ hp]
          exact ihc _ _ _ _ h
      | .op .plus :: t' => simp [parse] at h
      | .op .times :: t' => simp [parse] at h
      | .rp :: t' => simp [parse] at h
      | .lp :: t' =>
        simp only [parse] at h ⊢
        cases hp : parse f 0 t' with
        | none => simp [hp] at h
        | some q =>
          obtain ⟨e, r'⟩ := q
          simp only [hp] at h
          simp only [ihp _ _ _ hp]
          match r', h with
          | .rp :: r'', h => exact ihc _ _ _ _ h
          | [], h => simp at h
          | .atom _ :: _, h => simp at h
          | .op _ :: _, h => simp at h
          | .lp :: _, h => simp at h
    · intro b l t r h
      match t with
      | .op o :: t' =>
        simp only [cont] at h ⊢
        by_cases hlt : o.lbp < b
        · simp only [hlt, if_true] at h ⊢; exact h
        · simp only [hlt, if_false] at h ⊢
          cases hp : parse f o.rbp t' with
          | none => simp [hp] at h
          | some q =>
            obtain ⟨rhs, r'⟩ := q
            simp only [hp] at h
            simp only [ihp _ _ _ hp]
            exact ihc _ _ _ _ h
      | [] => simp only [cont] at h ⊢; exact h
      | .atom _ :: _ => simp only [cont] at h ⊢; exact h
      | .lp :: _ => simp only [cont] at h ⊢; exact h
      | .rp :: _ => simp only [cont] at h ⊢; exact h

theorem parse_mono {f b t r} (k : Nat) (h : parse f b t = some r) : parse (f+k) b t = some r := by
  induction k with
  | zero => exact h
  | succ k ih => exact (mono (f+k)).1 _ _ _ ih
theorem cont_mono {f b l t r} (k : Nat) (h : cont f b l t = some r) : cont (f+k) b l t = some r := by
  induction k with
  | zero => exact h
  | succ k ih => exact (mono (f+k)).2 _ _ _ _ ih


def sz : Expr → Nat
  | .atom _ => 1
  | .neg e => sz e + 1
  | .bin _ l r => sz l + sz r + 4

theorem stops_mono {k k' : Nat} {rest : List Tok} (h : StopsAt k rest) (hk : k ≤ k') : StopsAt k' rest := by
  cases rest with
  | nil => trivial
  | cons t r => cases t <;> simp_all [StopsAt] <;> omega

theorem cont_stop {k : Nat} {rest : List Tok} (h : StopsAt k rest) (e : Expr) (f : Nat) :
    cont (f+1) k e rest = some (e, rest) := by
  cases rest with
  | nil => simp [cont]
  | cons t r => cases t <;> simp_all [StopsAt, cont]

theorem lbp_lt_unary (o : Op) : o.lbp < unaryBp := by cases o <;> decide

theorem cont_pos {f b e t r} (h : cont f b e t = some r) : ∃ g, f = g + 1 := by
  cases f with
  | zero => simp [cont] at h
  | succ g => exact ⟨g, rfl⟩

/-- key lemma: parsing the printed form of `e` followed by `rest` behaves like resuming the loop with `lhs = e` -/
theorem parse_print (e : Expr) : ∀ (c ctx : Nat) (rest : List Tok) (f : Nat) (res : Expr × List Tok),
    ctx ≤ c → StopsAt (c+1) rest → cont f ctx e rest = some res →
    parse (f + sz e) ctx (printAt c e ++ rest) = some res := by
  induction e with
  | atom n =>
    intro c ctx rest f res _ _ h
    simp only [printAt, sz, List.cons_append, List.nil_append, parse]
    exact h
  | neg e ih =>
    intro c ctx rest f res _ _ h
    obtain ⟨g, rfl⟩ := cont_pos h
    have hst : StopsAt (unaryBp + 1) rest := by
      cases rest with
      | nil => trivial
      | cons t r => cases t <;> simp [StopsAt]; have := lbp_lt_unary ‹Op›; omega
    have hst' : StopsAt unaryBp rest := by
      cases rest with
      | nil => trivial
      | cons t r => cases t <;> simp [StopsAt]; exact lbp_lt_unary _
    have h1 := ih unaryBp unaryBp rest (g+1) (e, rest) (Nat.le_refl _) hst (cont_stop hst' e g)
    simp only [printAt, sz, List.cons_append]
    show parse (g + 1 + sz e + 1) ctx (Tok.op Op.minus :: (printAt unaryBp e ++ rest)) = some res
    simp only [parse, h1]
    exact cont_mono (sz e) h
  | bin o l r ihl ihr =>
    intro c ctx rest f res hc hst h
    obtain ⟨g, rfl⟩ := cont_pos h
    -- body lemma
    have body : ∀ (ctx' : Nat) (rest' : List Tok) (f' : Nat) (res' : Expr × List Tok),
        ctx' ≤ o.lbp → StopsAt o.rbp rest' → cont (f'+1) ctx' (.bin o l r) rest' = some res' →
        parse (f' + 1 + sz r + 1 + sz l) ctx' (printAt o.lbp l ++ Tok.op o :: (printAt o.rbp r ++ rest')) = some res' := by
      intro ctx' rest' f' res' hctx hs hc'
      apply ihl o.lbp ctx' _ (f' + 1 + sz r + 1) res' hctx
      · simp [StopsAt]
      · have hr := ihr o.rbp o.rbp rest' (f'+1) (r, rest') (Nat.le_refl _) (stops_mono hs (Nat.le_succ _)) (cont_stop hs r f')
        have hnlt : ¬ o.lbp < ctx' := by omega
        simp only [cont, hnlt, if_false, hr]
        exact cont_mono (sz r) hc'
    simp only [printAt, sz]
    by_cases hp : o.lbp < c
    · simp only [hp, if_true, List.cons_append, List.append_assoc, List.nil_append]
      have hb := body 0 (Tok.rp :: rest) 0 (.bin o l r, Tok.rp :: rest) (Nat.zero_le _) (by simp [StopsAt])
        (by simp [cont])
      have hb' := parse_mono (g) hb
      show parse (g + 1 + (sz l + sz r + 4)) ctx (Tok.lp :: (printAt o.lbp l ++ Tok.op o :: (printAt o.rbp r ++ Tok.rp :: rest))) = some res
      have e1 : g + 1 + (sz l + sz r + 4) = (0 + 1 + sz r + 1 + sz l + g + 2) + 1 := by omega
      rw [e1]
      simp only [parse, parse_mono 2 hb']
      have e2 : 0 + 1 + sz r + 1 + sz l + g + 2 = (g + 1) + (sz r + sz l + 3) := by omega
      rw [e2]
      exact cont_mono _ h
    · simp only [hp, if_false, List.append_assoc, List.cons_append]
      have hs : StopsAt o.rbp rest := stops_mono hst (by simp [Op.rbp]; omega)
      have hb := body ctx rest g res (by omega) hs h
      have e1 : g + 1 + (sz l + sz r + 4) = (g + 1 + sz r + 1 + sz l) + 3 := by omega
      rw [e1]
      exact parse_mono 3 hb

/-- round trip: for every expression, every context, every continuation that stops at the context -/
theorem round_trip (e : Expr) (ctx : Nat) (rest : List Tok) (h : StopsAt ctx rest) :
    parse (1 + sz e) ctx (printAt ctx e ++ rest) = some (e, rest) :=
  parse_print e ctx ctx rest 1 (e, rest) (Nat.le_refl _) (stops_mono h (Nat.le_succ _)) (cont_stop h e 0)

end SpikePratt
