/-! Design spike (not framework code): one interpreter, two lookup modes, fuel-indexed, nested
    inductive AST; checks that mutual structural recursion on fuel compiles and that the
    lookup-agreement lemma has a short proof. -/
namespace Spike

inductive Expr where
  | num  : Int → Expr
  | var  : Nat → Expr                      -- LocalId
  | add  : Expr → Expr → Expr
  | call : Nat → List Expr → Expr          -- FunctionId
  deriving Repr, Inhabited

inductive Stmt where
  | make   : Nat → Expr → Stmt
  | assign : Nat → Expr → Stmt
  | ifS    : Expr → List Stmt → List Stmt → Stmt
  | loop   : Expr → List Stmt → Stmt
  | block  : Nat → List Stmt → Stmt         -- BlockId
  | fdef   : Nat → List Nat → Nat → List Stmt → Stmt   -- fid params bodyBlk body
  | ret    : Expr → Stmt
  | shout  : Expr → Stmt
  deriving Repr, Inhabited

structure Scope where
  uid  : Nat
  blk  : Nat
  slots : List (Nat × Int)
  deriving Repr

structure FEntry where
  fid : Nat
  params : List Nat
  bodyBlk : Nat
  body : List Stmt
  chain : List Nat
  deriving Repr

structure St where
  env   : List Scope           -- head = top
  fenv  : List (Nat × List FEntry)   -- (scope uid, entries), head = top
  chain : List Nat             -- uids visible lexically, head = innermost
  next  : Nat
  out   : List Int
  deriving Repr

inductive Mode | dyn | lex deriving DecidableEq, Repr

def findSlot (ℓ : Nat) : List (Nat × Int) → Option Int
  | [] => none
  | (k, v) :: r => if k = ℓ then some v else findSlot ℓ r

def lookup (m : Mode) (st : St) (ℓ : Nat) : Option Int :=
  let rec go : List Scope → Option Int
    | [] => none
    | s :: r =>
      if m = .dyn ∨ s.uid ∈ st.chain then
        match findSlot ℓ s.slots with
        | some v => some v
        | none => go r
      else go r
  go st.env

inductive Flow | cont | ret (v : Int) deriving Repr

inductive Res (α : Type) where
  | ok : α → Res α
  | tdz : Res α
  | fuel : Res α
  deriving Repr

mutual
def eval (m : Mode) : Nat → Expr → St → Res (Int × St)
  | 0, _, _ => .fuel
  | _+1, .num n, st => .ok (n, st)
  | _+1, .var ℓ, st => match lookup m st ℓ with
      | some v => .ok (v, st)
      | none => .tdz
  | f+1, .add a b, st =>
      match eval m f a st with
      | .ok (x, st1) => match eval m f b st1 with
          | .ok (y, st2) => .ok (x + y, st2)
          | .tdz => .tdz | .fuel => .fuel
      | .tdz => .tdz | .fuel => .fuel
  | f+1, .call g args, st =>
      match evalArgs m f args st with
      | .ok (vs, st1) => .ok (vs.foldl (· + ·) (Int.ofNat g), st1)   -- placeholder
      | .tdz => .tdz | .fuel => .fuel
def evalArgs (m : Mode) : Nat → List Expr → St → Res (List Int × St)
  | 0, _, _ => .fuel
  | _+1, [], st => .ok ([], st)
  | f+1, e :: es, st =>
      match eval m f e st with
      | .ok (v, st1) => match evalArgs m f es st1 with
          | .ok (vs, st2) => .ok (v :: vs, st2)
          | .tdz => .tdz | .fuel => .fuel
      | .tdz => .tdz | .fuel => .fuel
end

/-- the shape of the key lemma -/
theorem lookup_agree (st : St) (ℓ : Nat)
    (h : ∀ s ∈ st.env, s.uid ∉ st.chain → findSlot ℓ s.slots = none) :
    lookup .dyn st ℓ = lookup .lex st ℓ := by
  unfold lookup
  generalize st.env = env at h
  induction env with
  | nil => rfl
  | cons s r ih =>
    have ih' := ih (fun s' hs' => h s' (List.mem_cons_of_mem _ hs'))
    by_cases hc : s.uid ∈ st.chain
    · simp [lookup.go, hc, ih']
    · have := h s (List.mem_cons_self) hc
      simp [lookup.go, hc, this, ih']

end Spike
