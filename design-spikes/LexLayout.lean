/-! Design spike (not framework code): layout-insensitivity for a cut-down lexer (words, numbers,
    parentheses, whitespace, `#` comments). Bytes are `Nat` so that `omega` settles class facts.
    Proved: separators are skipped (`skip_sep`), one-token step (`lex_step`). -/
namespace SpikeLex


def isWs (b : Nat) : Bool := b == 32 || b == 9 || b == 10 || b == 12 || b == 13
def isAlpha (b : Nat) : Bool := (decide (65 ≤ b) && decide (b ≤ 90)) || (decide (97 ≤ b) && decide (b ≤ 122)) || b == 95
def isDigit (b : Nat) : Bool := decide (48 ≤ b) && decide (b ≤ 57)

theorem alpha_facts {b : Nat} (h : isAlpha b = true) :
    isWs b = false ∧ b ≠ 35 ∧ b ≠ 40 ∧ b ≠ 41 ∧ isDigit b = false := by
  simp [isAlpha] at h
  simp [isWs, isDigit]; omega
theorem digit_facts {b : Nat} (h : isDigit b = true) :
    isWs b = false ∧ b ≠ 35 ∧ b ≠ 40 ∧ b ≠ 41 := by
  simp [isDigit] at h
  simp [isWs]; omega
def isWordCh (b : Nat) : Bool := isAlpha b || isDigit b

inductive Tok where
  | word (w : List Nat)      -- identifier or keyword (classification is a pure map afterwards)
  | num  (d : List Nat)
  | lparen | rparen
  deriving DecidableEq, Repr

def takeWhileB (p : Nat → Bool) : List Nat → List Nat × List Nat
  | [] => ([], [])
  | b :: r => if p b then let (a, s) := takeWhileB p r; (b :: a, s) else ([], b :: r)

theorem takeWhileB_len (p) (l : List Nat) : (takeWhileB p l).2.length ≤ l.length := by
  induction l with
  | nil => simp [takeWhileB]
  | cons b r ih => simp only [takeWhileB]; split <;> simp <;> omega

/-- skip whitespace and `#` comments -/
def skip : Nat → List Nat → List Nat
  | 0, l => l
  | _, [] => []
  | f+1, b :: r =>
    if isWs b then skip f r
    else if b = 35 then
      let (_, s) := takeWhileB (fun c => !(c = 10 || c = 13)) r
      match s with
      | [] => []
      | _ :: s' => skip f s'      -- consume the terminator
    else b :: r

def lex : Nat → List Nat → List Tok
  | 0, _ => []
  | f+1, l =>
    match skip (l.length + 1) l with
    | [] => []
    | b :: r =>
      if b = 40 then Tok.lparen :: lex f r
      else if b = 41 then Tok.rparen :: lex f r
      else if isDigit b then
        let (d, s) := takeWhileB isDigit (b :: r)
        Tok.num d :: lex f s
      else if isAlpha b then
        let (w, s) := takeWhileB isWordCh (b :: r)
        Tok.word w :: lex f s
      else lex f r   -- unexpected char: skip (error elided)

def Tok.text : Tok → List Nat
  | .word w => w | .num d => d | .lparen => [40] | .rparen => [41]

/-- well-formed token payloads -/
def Tok.WF : Tok → Prop
  | .word w => ∃ b r, w = b :: r ∧ isAlpha b = true ∧ ∀ c ∈ r, isWordCh c = true
  | .num d => d ≠ [] ∧ ∀ c ∈ d, isDigit c = true
  | _ => True

/-- a separator: whitespace and complete comments only -/
inductive Sep : List Nat → Prop
  | nil : Sep []
  | ws (b r) : isWs b = true → Sep r → Sep (b :: r)
  | comment (body : List Nat) (t : Nat) (r) :
      (∀ c ∈ body, ¬ (c = 10 ∨ c = 13)) → (t = 10 ∨ t = 13) → Sep r → Sep (35 :: body ++ t :: r)

def needsSep : Tok → Tok → Bool
  | .word _, .word _ | .word _, .num _ | .num _, .word _ | .num _, .num _ => true
  | _, _ => false

def render : List (Tok × List Nat) → List Nat
  | [] => []
  | (t, s) :: r => t.text ++ s ++ render r

#eval lex 100 ("foo  (12)# c\n bar".toUTF8.toList.map (·.toNat))
end SpikeLex

namespace SpikeLex

theorem takeWhileB_all (p : Nat → Bool) (a : List Nat) (rest : List Nat)
    (ha : ∀ c ∈ a, p c = true) (hr : ∀ b r, rest = b :: r → p b = false) :
    takeWhileB p (a ++ rest) = (a, rest) := by
  induction a with
  | nil =>
    cases rest with
    | nil => simp [takeWhileB]
    | cons b r => simp [takeWhileB, hr b r rfl]
  | cons x xs ih =>
    have hx : p x = true := ha x (by simp)
    have := ih (fun c hc => ha c (by simp [hc]))
    simp [takeWhileB, hx, this]

/-- `rest` starts a token (or is empty): not whitespace, not `#` -/
def StartsTok (rest : List Nat) : Prop := ∀ b r, rest = b :: r → isWs b = false ∧ b ≠ 35

theorem skip_stop (f : Nat) (rest : List Nat) (h : StartsTok rest) (hf : 0 < f) : skip f rest = rest := by
  cases f with
  | zero => omega
  | succ f =>
    cases rest with
    | nil => simp [skip]
    | cons b r =>
      obtain ⟨h1, h2⟩ := h b r rfl
      simp [skip, h1, h2]

theorem skip_sep (s : List Nat) (hs : Sep s) (rest : List Nat) (h : StartsTok rest) :
    ∀ f, s.length < f → skip f (s ++ rest) = rest := by
  induction hs with
  | nil => intro f hf; simpa using skip_stop f rest h (by omega)
  | ws b r hb _ ih =>
    intro f hf
    cases f with
    | zero => simp at hf
    | succ f =>
      simp only [List.cons_append, skip, hb, if_true]
      exact ih f (by simp at hf; omega)
  | comment body t r hbody ht _ ih =>
    intro f hf
    cases f with
    | zero => simp at hf
    | succ f =>
      have hws : isWs 35 = false := by decide
      have htw : takeWhileB (fun c => !(c = 10 || c = 13)) (body ++ (t :: (r ++ rest))) = (body, t :: (r ++ rest)) := by
        apply takeWhileB_all
        · intro c hc; have := hbody c hc; simp_all
        · intro b r' hbr; cases hbr; rcases ht with rfl | rfl <;> decide
      simp only [List.cons_append, List.append_assoc, skip, hws]
      simp only [htw]
      simp
      apply ih
      simp at hf; omega

end SpikeLex

namespace SpikeLex

def firstNotWord (l : List Nat) : Prop := ∀ b r, l = b :: r → isWordCh b = false
def firstNotDigit (l : List Nat) : Prop := ∀ b r, l = b :: r → isDigit b = false

/-- what must follow token `t` in the text so that it does not merge -/
def Tok.FollowOK : Tok → List Nat → Prop
  | .word _, l => firstNotWord l
  | .num _, l => firstNotDigit l ∧ firstNotWord l   -- the real lexer reports `1abc`; excluded here
  | _, _ => True

theorem text_starts (t : Tok) (h : t.WF) : StartsTok (t.text ++ rest) ∧ t.text ≠ [] := by
  cases t with
  | word w =>
    obtain ⟨b, r, rfl, hb, _⟩ := h
    refine ⟨?_, by simp [Tok.text]⟩
    intro b' r' he
    simp [Tok.text] at he
    obtain ⟨rfl, _⟩ := he
    exact ⟨(alpha_facts hb).1, (alpha_facts hb).2.1⟩
  | num d =>
    obtain ⟨hne, hd⟩ := h
    cases d with
    | nil => exact absurd rfl hne
    | cons b r =>
      refine ⟨?_, by simp [Tok.text]⟩
      intro b' r' he
      simp [Tok.text] at he
      obtain ⟨rfl, _⟩ := he
      have := hd b (by simp)
      exact ⟨(digit_facts this).1, (digit_facts this).2.1⟩
  | lparen => exact ⟨by intro b r he; simp [Tok.text] at he; obtain ⟨rfl, _⟩ := he; decide, by simp [Tok.text]⟩
  | rparen => exact ⟨by intro b r he; simp [Tok.text] at he; obtain ⟨rfl, _⟩ := he; decide, by simp [Tok.text]⟩

/-- one token step: from a text starting with `t.text ++ rest` where rest does not merge -/
theorem lex_step (f : Nat) (t : Tok) (h : t.WF) (rest : List Nat) (hf : t.FollowOK rest) :
    lex (f+1) (t.text ++ rest) = t :: lex f rest := by
  have hst := (text_starts (rest := rest) t h).1
  have hsk : skip ((t.text ++ rest).length + 1) (t.text ++ rest) = t.text ++ rest :=
    skip_stop _ _ hst (by omega)
  cases t with
  | word w =>
    obtain ⟨b, r, rfl, hb, hr⟩ := h
    have hb40 : b ≠ 40 := (alpha_facts hb).2.2.1
    have hb41 : b ≠ 41 := (alpha_facts hb).2.2.2.1
    have hbd : isDigit b = false := (alpha_facts hb).2.2.2.2
    have htw : takeWhileB isWordCh ((b :: r) ++ rest) = (b :: r, rest) := by
      apply takeWhileB_all
      · intro c hc
        rcases List.mem_cons.mp hc with rfl | hc
        · simp [isWordCh, hb]
        · exact hr c hc
      · exact hf
    simp only [Tok.text] at hsk htw ⊢
    simp only [lex, hsk]
    simp only [List.cons_append] at htw ⊢
    simp [hb40, hb41, hbd, hb, htw]
  | num d =>
    obtain ⟨hne, hd⟩ := h
    cases d with
    | nil => exact absurd rfl hne
    | cons b r =>
      have hbd : isDigit b = true := hd b (by simp)
      have hb40 : b ≠ 40 := (digit_facts hbd).2.2.1
      have hb41 : b ≠ 41 := (digit_facts hbd).2.2.2
      have htw : takeWhileB isDigit ((b :: r) ++ rest) = (b :: r, rest) := by
        apply takeWhileB_all
        · exact hd
        · exact hf.1
      simp only [Tok.text] at hsk htw ⊢
      simp only [lex, hsk]
      simp only [List.cons_append] at htw ⊢
      simp [hb40, hb41, hbd, htw]
  | lparen =>
    simp only [Tok.text] at hsk ⊢
    simp only [lex, hsk]; simp
  | rparen =>
    simp only [Tok.text] at hsk ⊢
    simp only [lex, hsk]; simp

end SpikeLex
