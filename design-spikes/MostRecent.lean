/-! Design spike (not framework code): the most-recent-instance invariant behind C04.
    Proved: restricted (lexical) and unrestricted (dynamic) slot search agree under the invariant,
    and entering a block preserves it. -/
namespace SpikeMR

structure Scope where
  uid : Nat
  blk : Nat
  slots : List (Nat × Int)

def findSlot (ℓ : Nat) : List (Nat × Int) → Option Int
  | [] => none
  | (k, v) :: r => if k = ℓ then some v else findSlot ℓ r

theorem findSlot_some_mem {ℓ : Nat} {l : List (Nat × Int)} {v : Int} (h : findSlot ℓ l = some v) : (ℓ, v) ∈ l := by
  induction l with
  | nil => simp [findSlot] at h
  | cons p r ih =>
    obtain ⟨k, w⟩ := p
    simp only [findSlot] at h
    split at h
    · cases h; subst_vars; simp
    · exact List.mem_cons_of_mem _ (ih h)

def lookupG (vis : Scope → Bool) (ℓ : Nat) : List Scope → Option Int
  | [] => none
  | s :: r =>
    if vis s then
      match findSlot ℓ s.slots with
      | some v => some v
      | none => lookupG vis ℓ r
    else lookupG vis ℓ r

/-- generic agreement: if no scope above a visible holder of ℓ holds ℓ, restricted and unrestricted search agree -/
theorem lookupG_agree (vis : Scope → Bool) (ℓ : Nat) (env : List Scope) (v : Int)
    (hmr : ∀ pre S post, env = pre ++ S :: post → vis S = true → findSlot ℓ S.slots ≠ none →
            ∀ S' ∈ pre, findSlot ℓ S'.slots = none)
    (h : lookupG vis ℓ env = some v) : lookupG (fun _ => true) ℓ env = some v := by
  induction env with
  | nil => simp [lookupG] at h
  | cons s r ih =>
    simp only [lookupG] at h ⊢
    by_cases hv : vis s = true
    · simp only [hv, if_true] at h ⊢
      cases hs : findSlot ℓ s.slots with
      | some w => simp [hs] at h ⊢; exact h
      | none =>
        simp only [hs] at h ⊢
        apply ih _ h
        intro pre S post he hvS hS S' hS'
        exact hmr (s :: pre) S post (by simp [he]) hvS hS S' (List.mem_cons_of_mem _ hS')
    · simp only [hv] at h
      simp only [if_true]
      -- s is invisible: must show it does not hold ℓ
      have hr := ih (by
        intro pre S post he hvS hS S' hS'
        exact hmr (s :: pre) S post (by simp [he]) hvS hS S' (List.mem_cons_of_mem _ hS')) (by simpa using h)
      -- the restricted search found ℓ in some visible S below s; MR says s cannot hold ℓ
      have : findSlot ℓ s.slots = none := by
        -- find the visible holder
        have key : ∀ (l : List Scope), lookupG vis ℓ l = some v →
            ∃ pre S post, l = pre ++ S :: post ∧ vis S = true ∧ findSlot ℓ S.slots ≠ none := by
          intro l
          induction l with
          | nil => intro h; simp [lookupG] at h
          | cons t q ihq =>
            intro h
            simp only [lookupG] at h
            by_cases hvt : vis t = true
            · simp only [hvt, if_true] at h
              cases ht : findSlot ℓ t.slots with
              | some w => exact ⟨[], t, q, by simp, hvt, by simp [ht]⟩
              | none =>
                simp only [ht] at h
                obtain ⟨pre, S, post, he, h1, h2⟩ := ihq h
                exact ⟨t :: pre, S, post, by simp [he], h1, h2⟩
            · simp only [hvt] at h
              obtain ⟨pre, S, post, he, h1, h2⟩ := ihq (by simpa using h)
              exact ⟨t :: pre, S, post, by simp [he], h1, h2⟩
        obtain ⟨pre, S, post, he, h1, h2⟩ := key r (by simpa using h)
        exact hmr (s :: pre) S post (by simp [he]) h1 h2 s (by simp)
      simp [this, hr]

/-! The concrete invariant. -/
structure St where
  env : List Scope
  chain : List Nat

/-- I1: slots of a scope are declarations of its block. I3: a chain scope is the most recent instance of its block. -/
structure Inv (declBlk : Nat → Nat) (st : St) : Prop where
  i1 : ∀ S ∈ st.env, ∀ p ∈ S.slots, declBlk p.1 = S.blk
  i3 : ∀ pre S post, st.env = pre ++ S :: post → S.uid ∈ st.chain → ∀ S' ∈ pre, S'.blk ≠ S.blk

def lookupLex (st : St) (ℓ : Nat) := lookupG (fun s => decide (s.uid ∈ st.chain)) ℓ st.env
def lookupDyn (st : St) (ℓ : Nat) := lookupG (fun _ => true) ℓ st.env

theorem lookup_agree (declBlk) (st : St) (hinv : Inv declBlk st) (ℓ : Nat) (v : Int)
    (h : lookupLex st ℓ = some v) : lookupDyn st ℓ = some v := by
  apply lookupG_agree _ ℓ st.env v _ h
  intro pre S post he hvS hS S' hS'
  have hSmem : S ∈ st.env := by simp [he]
  have hS'mem : S' ∈ st.env := by simp [he, hS']
  cases hs' : findSlot ℓ S'.slots with
  | none => rfl
  | some w =>
    exfalso
    have m' := findSlot_some_mem hs'
    cases hsS : findSlot ℓ S.slots with
    | none => exact hS hsS
    | some u =>
      have m := findSlot_some_mem hsS
      have b1 := hinv.i1 S hSmem _ m
      have b2 := hinv.i1 S' hS'mem _ m'
      have := hinv.i3 pre S post he (by simpa using hvS) S' hS'
      simp at b1 b2
      omega

/-- entering a block whose id is not on the lexical ancestor path preserves the invariant -/
theorem inv_push (declBlk) (st : St) (hinv : Inv declBlk st) (u b : Nat)
    (hfresh : ∀ S ∈ st.env, S.uid ≠ u)
    (hanc : ∀ S ∈ st.env, S.uid ∈ st.chain → S.blk ≠ b) :
    Inv declBlk { env := { uid := u, blk := b, slots := [] } :: st.env, chain := u :: st.chain } := by
  constructor
  · intro S hS p hp
    simp at hS
    rcases hS with rfl | hS
    · simp at hp
    · exact hinv.i1 S hS p hp
  · intro pre S post he hS S' hS'
    cases pre with
    | nil => simp at hS'
    | cons t q =>
      simp at he
      obtain ⟨rfl, he⟩ := he
      have hSmem : S ∈ st.env := by simp [he]
      have hSch : S.uid ∈ st.chain := by
        simp at hS
        rcases hS with h | h
        · exact absurd h (hfresh S hSmem)
        · exact h
      simp at hS'
      rcases hS' with rfl | hS'
      · simp; exact fun h => hanc S hSmem hSch h.symm
      · exact hinv.i3 q S post he hSch S' hS'

end SpikeMR
